"""C11 search oracle: reset() restores a pristine converter; instances are independent; no hash-seed dependence.

Four parts (shares of the budget n, a "case" is one compared conversion):
 1. HISTORIES (~75 %).  A random configuration (subset of the 18 bundled extensions with random options, output format,
    tab length), ONE instance, a history of <= 8 documents with `md.reset()` before each.  After every step the
    observation  (md.reset().convert(d), md.toc, md.toc_tokens, md.Meta)  must equal that of a FRESH instance of the
    same configuration converting d (every prefix of a history is a history, so every step is a check).
    Documents come from gen/docs.py: stateful constructs over small label pools, so that later documents use labels
    (link references, footnotes, abbreviations, header ids) which earlier ones defined.
    Footnotes' UNIQUE_IDS is never set (documented to differ).
    35 % of the histories have a FOCUS: one construct kind (chosen among those the loaded extensions render through state of their own:
    fences for fenced_code/codehilite, footnotes, abbreviations, headings/[TOC], attribute lists, tables, ...) is added to nearly every
    document, so that whatever an earlier document left behind meets the same construct again.
    RAISING conversions are part of the histories (F-C11-1 is fixed: nothing is suppressed).  About one step in eight is a
    "raiser": a deeply nested document (nested bullet/ordered lists, definition lists, admonitions, md_in_html containers,
    a list inside a footnote body; 20-90 levels, stateful constructs before and after it) converted under a recursion
    limit lowered to 60-400 frames above the caller (RecursionError in the block parser or in the footnote tree
    processor at a cost of milliseconds; now and then the real thing: a 400-level list under the default limit), or
    a footnote definition inside a footnote body (RuntimeError in a tree processor).  A quarter of the histories also
    carry one json-able option that makes documents containing the matching construct raise at another stage: wikilinks
    build_url / footnotes SUPERSCRIPT_TEXT (inline patterns), footnotes BACKLINK_TITLE, toc slugify/separator, codehilite
    pygments_style (preprocessor or tree processor), smarty substitutions, abbr glossary / toc permalink_title of the
    wrong type (last tree processor).  Whatever raised, the NEXT step requires md.reset() == fresh as always; the raiser
    step itself is not compared (whether a document just fits under a lowered limit may depend on one frame).
 2. ATTRIBUTE CENSUS at the end of every history: deep snapshot of everything reachable from the instance (all
    processors, patterns, extensions) after reset() against a fresh instance; attributes that differ and are not on
    ALLOW (established on the unchanged tree, see `census()`) are counted in dist['census_new'] and attached to a
    violation of the same history (a new attribute alone, without a behavioural difference, is not a violation).
 3. INTERLEAVING (~15 %).  Two or three differently configured instances, each with its own document sequence:
    constructing and using them interleaved (random schedule) must give each the results it gives alone.
 3b. SHARED-STATE CENSUS (once per call, one subprocess; gen/footprint.py).  In a fresh interpreter every module global
    and class-level attribute (lists, dicts, sets included) of markdown.* is fingerprinted before and after CONSTRUCTING
    an instance with each bundled extension alone (nothing is converted), with all of them, and after converting a
    batch.  A location whose content changes and that is not on the allow-list of memo cells (oracle/c12.DYN_ALLOW) is
    a channel by which creating/using one instance reaches every other instance: reported as a violation.
 4. HASH SEED / PROCESS (fixed small share).  A batch of (configuration, document) pairs is converted with fresh
    instances in three subprocesses with PYTHONHASHSEED = 0, 1, 12345 (each in a different order, which also exposes
    process-wide pollution by earlier instances) and in this process; all four must agree.

distinct = number of different (extension set, document) pairs whose conversion is non-empty and, for part 1, that
were converted after a non-empty history (measured with a set).
"""
import json, os, subprocess, sys
from contextlib import contextmanager
from gen import docs as D
from gen.common import EXTENSIONS as C_EXT
from gen import canon

NEEDS_DRIVER = False

FINDINGS = [
    {'id': 'F-C11-1', 'property': 'C11', 'status': 'open',
     'what': 'after a conversion that raised (RecursionError in the block parser) reset() does not clear parser.state: '
             "the next convert('foo\\n\\nbar') gives 'foo\\nbar'",
     'witness': {'history': [{'nested_list': 400}], 'doc': 'foo\n\nbar', 'config': {}}},
]

# Attributes ('Class.attr') that differ between a fresh instance and an instance after convert(...) + reset() on the
# UNCHANGED tree (union over `census()` runs with all extensions together and each alone).  None of them is read by a
# later conversion before being overwritten, except the caches that depend only on the configuration:
ALLOW = {
    'Markdown.lines',                        # scratch: the source lines of the last document (assigned before use)
    'BlockParser.root',                      # scratch: the last tree (assigned in parseDocument before use)
    'Registry._is_sorted', 'Registry._priority',   # lazily sorted on first use; same content (C13)
    'InlineProcessor.stashed_nodes', 'InlineProcessor.parent_map', 'InlineProcessor.ancestors',  # re-initialised in run()
    'HRProcessor.match', 'TableProcessor.border', 'TableProcessor.separator',  # set by test(), read by the run() that follows
    'SaneOListProcessor.STARTSWITH', 'OListProcessor.STARTSWITH',  # set by run() for the list it builds
    'FootnoteExtension.unique_prefix',       # counts resets; only read when UNIQUE_IDS is set (excluded)
    'FootnotePostTreeprocessor.offset',      # re-initialised in run()
    'AbbrTreeprocessor.RE',                  # compiled from the current abbrs at the start of run()
    'FencedBlockPreprocessor.checked_for_deps', 'FencedBlockPreprocessor.codehilite_conf', 'FencedBlockPreprocessor.use_attr_list',
    # ^ one-time look-up of the *configuration* (which other extensions are registered); same value for every document
}


# ----------------------------------------------------------------------------------------------------------------------

def nested_list(k):
    return '\n'.join('    ' * i + '- x' for i in range(k))


def _doc(d):
    if isinstance(d, dict): return nested_list(d['nested_list']) if 'nested_list' in d else d['text']
    return d


@contextmanager
def low_recursion(margin):
    """lower the recursion limit to `margin` frames above the caller for the duration of one conversion"""
    old = sys.getrecursionlimit()
    depth = 0; f = sys._getframe()
    while f is not None: depth += 1; f = f.f_back
    try:
        sys.setrecursionlimit(min(old, depth + margin)); yield
    finally:
        sys.setrecursionlimit(old)


def observe(md, d):
    """reset, convert and collect the side outputs; json-able.  `d`: a document, or a raiser entry
    {'text': document, 'margin': frames} (converted under a lowered recursion limit) / {'nested_list': levels}"""
    md.reset()
    if isinstance(d, dict) and 'margin' in d:
        with low_recursion(d['margin']): out = md.convert(d['text'])
    else:
        out = md.convert(_doc(d))
    return [out, getattr(md, 'toc', None), json.loads(json.dumps(getattr(md, 'toc_tokens', None))), json.loads(json.dumps(getattr(md, 'Meta', None)))]


def observe_safe(md, d):
    try:
        return observe(md, d)
    except RecursionError:
        return ['EXC', 'RecursionError']
    except Exception as e:
        return ['EXC', type(e).__name__]


def _raised(o):
    return o[0] == 'EXC' and len(o) == 2


def run_history(cfg, history, d):
    """(observation through a used instance, observation of a fresh one, some history conversion raised?)"""
    md = D.make(cfg)
    raised = False
    for h in history:
        if _raised(observe_safe(md, h)): raised = True
    return observe_safe(md, d), observe_safe(D.make(cfg), d), raised


def _fails(cfg, history, d):
    a, b, _ = run_history(cfg, history, d)
    return a != b


def _shrink(cfg, history, d):
    history = list(history)
    i = 0
    while i < len(history):
        h2 = history[:i] + history[i + 1:]
        if _fails(cfg, h2, d): history = h2
        else: i += 1
    return history


DEEP = {
    'ulist': lambda k: '\n'.join('    ' * i + '- x' for i in range(k)),
    'olist': lambda k: '\n'.join('    ' * i + '%d. x' % (i + 1) for i in range(k)),
    'mixlist': lambda k: '\n'.join('    ' * i + ('- x', '1. y', '* z', ':   d')[i % 4] for i in range(k)),
    'deflist': lambda k: '\n'.join('    ' * i + 'T\n' + '    ' * i + ':   d' for i in range(k)),
    'admonition': lambda k: '\n\n'.join('    ' * i + '!!! note' for i in range(k)) + '\n\n' + '    ' * k + 'x',
    'md_in_html': lambda k: '\n'.join('<div markdown="1">' for i in range(k)) + '\n*x*\n' + '\n'.join('</div>' for i in range(k)),
    'fnbody': lambda k: 'x[^1] y[^1]\n\n[^1]: a\n\n' + '\n'.join('    ' + '    ' * i + '- x' for i in range(k)),
    'quotelist': lambda k: '\n'.join('> ' + '    ' * i + '- x' for i in range(k)),
}

# json-able options with which a document containing the matching construct raises (stage in the comment)
HOSTILE_OPTS = [
    ('wikilinks', {'build_url': 'notcallable'}),          # inline pattern (TypeError) on [[w]]
    ('footnotes', {'SUPERSCRIPT_TEXT': '{x}'}),           # inline pattern (KeyError) on a footnote reference
    ('footnotes', {'BACKLINK_TITLE': '%d %d'}),           # footnote tree processor, before inline (IndexError)
    ('toc', {'slugify': 'notcallable'}),                  # toc tree processor (TypeError) on a header without id
    ('toc', {'separator': '--'}),                         # toc tree processor (re.error)
    ('codehilite', {'pygments_style': 'nope'}),           # fenced_code preprocessor / hilite tree processor (ClassNotFound; needs Pygments)
    ('smarty', {'substitutions': {'ndash': 5}}),          # smarty tree processor, after prettify (IndexError) on --
    ('abbr', {'glossary': {'HTML': 5}}),                  # unescape, the last tree processor (TypeError) on HTML
    ('toc', {'permalink': True, 'permalink_title': 5}),   # unescape (TypeError) on a header
]


def gen_raiser(rng, cfg, counters):
    """a history entry that is likely to raise, with stateful constructs around the part that raises"""
    pre = D.document(rng, 1, 3, counters=counters); post = D.document(rng, 1, 2, counters=counters) if rng.random() < 0.6 else ''
    k = rng.random()
    if k < 0.12:
        text = pre + '\n\n[^a]: [^b]: x\n\n[^c]: y\n\n[^a][^c] z[^b]\n\n' + post   # footnote definition inside a footnote body
        return {'text': text, 'margin': 100000, 'family': 'fn_in_fn'}
    fam = rng.choice(sorted(DEEP))
    text = pre + '\n\n' + DEEP[fam](rng.choice([30, 40, 60, 90])) + '\n\n' + post
    return {'text': text, 'margin': rng.choice([60, 80, 100, 150, 250]), 'family': fam}


def replay(witness):
    return _fails(witness.get('config', {}), witness['history'], witness['doc'])


def replay_violation(v):
    inp = v['input']
    if inp.get('kind') == 'interleave':
        return bool(_interleave_check(inp['configs'], inp['seqs'], inp['schedule']))
    if inp.get('kind') == 'shared_state':
        return any([ns, attr] == inp['site'] for ns, attr, a, b, ph in _shared_state_new())
    if inp.get('kind') == 'hashseed':
        res = _hashseed_check([(v['config'], inp['doc'])] + [tuple(x) for x in inp.get('before', [])])
        return bool(res)
    return _fails(v['config'], inp['history'], inp['doc'])


# ----------------------------------------------------------------------------------------------------------------------
# census

def census_diff(md, cfg):
    """attributes of `md` (after reset()) that differ from a fresh instance of the same configuration"""
    md.reset()
    return canon.diff(canon.snapshot(D.make(cfg)), canon.snapshot(md))


def census(rounds=300, seed=20240101):
    """Attribute census on the current tree.  Returns {'after_convert': {...}, 'after_reset': {...}, 'new': [...]}:
    the attributes (Class.attr -> example (path, fresh value, used value)) that differ from a fresh instance after a
    batch of conversions, and after the following reset(); 'new' = after_reset attributes not on ALLOW.
    Configurations: every extension loaded together as *instances* (so that extension objects which the Markdown
    instance does not keep are walked as well), each extension alone, and no extension."""
    import random
    import markdown
    from markdown import util
    rng = random.Random(seed)
    eps = {ep.name: ep for ep in util.get_installed_extensions()}
    names = sorted(eps)

    class Holder:  # root of the walk: the instance plus the extension objects handed to it
        pass

    def build(ns):
        h = Holder()
        h.exts = [eps[n].load()() for n in ns]
        h.md = markdown.Markdown(extensions=list(h.exts))
        return h
    after_convert, after_reset = {}, {}
    for ns in [names, []] + [[n] for n in names]:
        fresh = canon.snapshot(build(ns), 'root')
        h = build(ns)
        for _ in range(rounds if len(ns) != 1 else max(20, rounds // 6)):
            try: h.md.reset().convert(D.document(rng))
            except Exception: break   # a raising conversion is F-C11-1 territory: stop this batch
        else:
            for k, v in canon.diff(fresh, canon.snapshot(h, 'root')).items(): after_convert.setdefault(k, v)
            h.md.reset()
            for k, v in canon.diff(fresh, canon.snapshot(h, 'root')).items(): after_reset.setdefault(k, v)
    return {'after_convert': after_convert, 'after_reset': after_reset, 'new': sorted(set(after_reset) - ALLOW)}


# ----------------------------------------------------------------------------------------------------------------------
# shared-state census (process-wide state written by constructing / using instances)

def _shared_state_new(batch=40):
    """[(namespace, attribute, before, after, phase)] not on the allow-list, observed in a fresh interpreter"""
    from gen import footprint
    from oracle import c12
    out = []
    for phase, ns, attr, a, b in footprint.pristine(batch):
        if (ns, attr) in c12.DYN_ALLOW or (ns, '*') in c12.DYN_ALLOW or c12._is_lazy_import(a, b): continue
        out.append((ns, attr, a, b, phase))
    return out


# ----------------------------------------------------------------------------------------------------------------------
# interleaving

def _alone(cfgs, seqs):
    res = []
    for c, s in zip(cfgs, seqs):
        md = D.make(c)
        res.append([observe_safe(md, d) for d in s])
    return res


def _interleaved(cfgs, seqs, schedule):
    """schedule: list of instance indices; the first occurrence of i constructs instance i, every occurrence converts
    its next document"""
    mds = {}; pos = [0] * len(cfgs); res = [[] for _ in cfgs]
    for i in schedule:
        if i not in mds: mds[i] = D.make(cfgs[i])
        if pos[i] < len(seqs[i]):
            res[i].append(observe_safe(mds[i], seqs[i][pos[i]])); pos[i] += 1
    return res


def _interleave_check(cfgs, seqs, schedule):
    a = _alone(cfgs, seqs); b = _interleaved(cfgs, seqs, schedule)
    bad = []
    for i in range(len(cfgs)):
        for j, (x, y) in enumerate(zip(a[i], b[i])):
            if x != y: bad.append((i, j, x, y))
    return bad


# ----------------------------------------------------------------------------------------------------------------------
# hash seed / process independence

_CHILD = r'''
import sys, json
sys.path[:0] = [%r, %r]
import oracle.c11 as o
o._child()
'''


def _child():
    data = json.loads(sys.stdin.read())
    out = {}
    for idx in data['order']:
        cfg, d = data['pairs'][idx]
        out[str(idx)] = observe_safe(D.make(cfg), d)
    sys.stdout.write(json.dumps(out))


def _md_root():
    import markdown
    return os.path.dirname(os.path.dirname(os.path.abspath(markdown.__file__)))


def _run_child(pairs, order, seed):
    harness = os.path.dirname(os.path.dirname(os.path.abspath(__file__)))
    env = dict(os.environ); env['PYTHONHASHSEED'] = str(seed)
    p = subprocess.run([sys.executable, '-c', _CHILD % (_md_root(), harness)], input=json.dumps({'pairs': pairs, 'order': order}).encode(),
                       stdout=subprocess.PIPE, stderr=subprocess.PIPE, env=env, timeout=600)
    if p.returncode != 0:
        raise RuntimeError('hash-seed child failed: ' + p.stderr.decode('utf-8', 'replace')[-400:])
    got = json.loads(p.stdout.decode())
    return [got[str(i)] for i in range(len(pairs))]


SEEDS = (0, 1, 12345)


def _hashseed_check(pairs):
    """[(index, {where: observation})] for the pairs on which this process and the three children do not all agree"""
    pairs = [[c, d] for c, d in pairs]
    m = len(pairs)
    # child 0 converts the pairs with the fewest extensions first (still pristine process), child 1 in the opposite
    # order (the extension-heavy instances come first), child 2 in the given order: a process-wide effect of one
    # instance on another shows as a disagreement between them / with this (long-used) process
    asc = sorted(range(m), key=lambda i: (len(pairs[i][0].get('extensions', [])), i))
    orders = [asc, asc[::-1], list(range(m))]
    here = [observe_safe(D.make(c), d) for c, d in pairs]
    runs = {'this process': here}
    for s, o in zip(SEEDS, orders):
        runs['PYTHONHASHSEED=%d' % s] = _run_child(pairs, o, s)
    bad = []
    for i in range(m):
        vals = {k: r[i] for k, r in runs.items()}
        if any(v != here[i] for v in vals.values()): bad.append((i, vals))
    return bad


# ----------------------------------------------------------------------------------------------------------------------

def search(driver, rng, n):
    dist = {'histories': 0, 'raised': {}, 'raisers': {}, 'hostile_option': 0, 'steps_after_raise': 0, 'hist_len': {}, 'pieces': {}, 'ext_count': {}, 'census_new': {}, 'nonempty_toc': 0, 'nonempty_meta': 0,
            'interleave_rounds': 0, 'construct_only': 0, 'shared_state_written': [], 'hashseed_pairs': 0, 'empty_out': 0, 'options_set': 0}
    viol = []; samples = []; seen = set(); cases = 0
    n_hash = max(6, min(300, n // 6))          # three short child processes: cheap
    n_inter = n * 15 // 100
    n_hist = max(1, n - n_inter - n_hash // 2)

    # 1 + 2: histories and census
    while cases < n_hist:
        cfg = D.config(rng)
        L = rng.choice([1, 2, 3, 4, 5, 6, 7, 8, 8])
        dist['histories'] += 1
        dist['ext_count'][len(cfg['extensions'])] = dist['ext_count'].get(len(cfg['extensions']), 0) + 1
        if cfg['extension_configs']: dist['options_set'] += 1
        if rng.random() < 0.25:
            e, o = rng.choice(HOSTILE_OPTS)
            if e not in cfg['extensions']: cfg['extensions'].append(e)
            cfg['extension_configs'][e] = dict(cfg['extension_configs'].get(e, {}), **json.loads(json.dumps(o)))
            if e == 'codehilite' and rng.random() < 0.5 and 'fenced_code' not in cfg['extensions']: cfg['extensions'].append('fenced_code')
            dist['hostile_option'] += 1
        try:
            md = D.make(cfg)
        except Exception as e:   # a configuration the code rejects is not a C11 matter
            dist['config_rejected:' + type(e).__name__] = dist.get('config_rejected:' + type(e).__name__, 0) + 1
            continue
        history = []; hviol = []; raised_before = False
        # FOCUS (35 % of the histories): one kind of construct, chosen among those that the loaded extensions render through state of
        # their own, is appended to (nearly) every document of the history, the compared ones included
        focus = rng.choice(D.focus_pieces(cfg['extensions'])) if rng.random() < 0.35 else None
        if focus is not None: dist['focus'] = dist.get('focus', {}); dist['focus'][focus.__name__] = dist['focus'].get(focus.__name__, 0) + 1
        for step in range(L + 1):
            if step < L and rng.random() < 0.12:
                # a raiser in the middle of the history: not compared itself, the following steps are
                r = {'nested_list': 400} if rng.random() < 0.015 else gen_raiser(rng, cfg, dist['pieces'])
                got = observe_safe(md, r)
                fam = r.get('family', 'nested_list_400')
                dist['raisers'][fam] = dist['raisers'].get(fam, 0) + 1
                if _raised(got): dist['raised'][got[1]] = dist['raised'].get(got[1], 0) + 1; raised_before = True
                history.append(r)
                continue
            d = D.document(rng, counters=dist['pieces'])
            if focus is not None and rng.random() < 0.85:
                piece = focus(rng)
                d = (piece + '\n\n' + d) if focus is D.p_meta else (d + '\n\n' + piece)
            got = observe_safe(md, d)
            want = observe_safe(D.make(cfg), d)
            cases += 1
            if not _raised(got):
                if got[0] == '': dist['empty_out'] += 1
                if got[1]: dist['nonempty_toc'] += 1
                if got[3]: dist['nonempty_meta'] += 1
            if history and got[0] and not _raised(got): seen.add((tuple(sorted(cfg['extensions'])), d))
            if raised_before: dist['steps_after_raise'] += 1
            if got != want:
                hviol.append({'input': {'history': list(history), 'doc': d}, 'config': cfg, 'observed': repr(got)[:1500], 'required': repr(want)[:1500], 'finding': None})
            elif len(samples) < 3 and history and not _raised(got) and got[1]:
                samples.append({'history': list(history), 'doc': d, 'config': cfg, 'observation': got})
            history.append(d)
            if _raised(got): dist['raised'][got[1]] = dist['raised'].get(got[1], 0) + 1; raised_before = True   # the fresh instance must raise alike; the history goes on
        dist['hist_len'][len(history)] = dist['hist_len'].get(len(history), 0) + 1
        if history:
            try:
                new = sorted(set(census_diff(md, cfg)) - ALLOW)
            except Exception as e:
                new = []; dist['census_error'] = dist.get('census_error', 0) + 1
            for a in new: dist['census_new'][a] = dist['census_new'].get(a, 0) + 1
            for v in hviol[:1]:
                if len(viol) < 25:
                    v['input']['history'] = _shrink(cfg, v['input']['history'], v['input']['doc'])
                    v['census_new'] = new
                    viol.append(v)

    # 3: interleaving
    done = 0
    while done < n_inter:
        k = rng.choice([2, 2, 3])
        cfgs = []
        while len(cfgs) < k:
            c = D.config(rng)
            try: D.make(c); cfgs.append(c)
            except Exception: pass
        seqs = [[D.document(rng, counters=dist['pieces']) for _ in range(rng.randint(1, 4))] for _ in range(k)]
        # instances that are only CONSTRUCTED (never used) between the uses of the others: a single extension or a random set
        for _ in range(rng.choice([0, 1, 1, 2])):
            c = {'extensions': [rng.choice(C_EXT)], 'extension_configs': {}} if rng.random() < 0.6 else D.config(rng)
            try: D.make(c)
            except Exception: continue
            cfgs.append(c); seqs.append([]); dist['construct_only'] += 1
        k = len(cfgs)
        schedule = [i for i in range(k) for _ in range(max(1, len(seqs[i]) + (1 if rng.random() < 0.3 else 0)))]
        rng.shuffle(schedule)
        bad = _interleave_check(cfgs, seqs, schedule)
        dist['interleave_rounds'] += 1
        done += sum(len(s) for s in seqs); cases += sum(len(s) for s in seqs)
        for s, c in zip(seqs, cfgs):
            for d in s: seen.add((tuple(sorted(c['extensions'])), d))
        if bad and len(viol) < 25:
            i, j, x, y = bad[0]
            viol.append({'input': {'kind': 'interleave', 'configs': cfgs, 'seqs': seqs, 'schedule': schedule, 'instance': i, 'doc_index': j},
                         'config': cfgs[i], 'observed': 'interleaved: ' + repr(y)[:1200], 'required': 'alone: ' + repr(x)[:1200], 'finding': None})

    # 3b: shared-state census in a fresh interpreter
    try:
        for ns, attr, a, b, phase in _shared_state_new():
            dist['shared_state_written'].append('%s :: %s' % (ns, attr))
            if len(viol) < 30:
                viol.append({'input': {'kind': 'shared_state', 'site': [ns, attr], 'phase': phase}, 'config': {},
                             'observed': 'process-wide state changed (%s): %s :: %s  %s -> %s' % (phase, ns, attr, a, b),
                             'required': 'constructing or using an instance leaves module- and class-level state of markdown.* unchanged (memo cells excepted)', 'finding': None})
        cases += 1
    except Exception as e:
        dist['shared_state_skipped'] = repr(e)[:300]

    # 4: hash seed / process
    pairs = []
    while len(pairs) < n_hash:
        c = D.config(rng)
        try: D.make(c)
        except Exception: continue
        focus = rng.choice(D.focus_pieces(c['extensions'])) if rng.random() < 0.5 else None     # as in the histories
        for _ in range(3):
            d = D.document(rng, counters=dist['pieces'])
            if focus is not None: d = (focus(rng) + '\n\n' + d) if focus is D.p_meta else (d + '\n\n' + focus(rng))
            pairs.append((c, d))
    pairs = pairs[:n_hash]
    try:
        bad = _hashseed_check(pairs)
        dist['hashseed_pairs'] = len(pairs); cases += len(pairs)
    except (RuntimeError, subprocess.TimeoutExpired, OSError) as e:
        bad = []; dist['hashseed_skipped'] = str(e)[:300]
    for i, vals in bad[:5]:
        # the pairs converted before this one in some child are part of the input (pollution needs them)
        viol.append({'input': {'kind': 'hashseed', 'doc': pairs[i][1], 'before': [list(p) for p in pairs[:i]][-10:]}, 'config': pairs[i][0],
                     'observed': json.dumps(vals)[:2000], 'required': 'the same observation in this process and under PYTHONHASHSEED=0,1,12345', 'finding': None})
    return {'cases': cases, 'distinct': len(seen), 'violations': viol, 'samples': samples, 'dist': dist}
