"""C19 search oracle: all ways of naming and configuring a bundled extension are equivalent.

The bundled extensions are the entry points of the installed metadata (`markdown.util.get_installed_extensions()`, group
markdown.extensions, restricted to values in the `markdown.extensions.` package: 18).  Option names and defaults are read
from `cls().config` after instantiation.  Per case one extension E and one of these checks (a case = one check):

 forms (45 %)   a random option set O for E (semantic values from gen/docs.ext_opts plus generic values by default type)
                and a document exercising E (1-3 pieces of E's syntax + 0-3 general pieces):
                    markdown(doc, extensions=[f], extension_configs={f: O})  for f in  'E', 'markdown.extensions.E',
                    'markdown.extensions.E:Cls'   and   markdown(doc, extensions=[Cls(**O)])
                and  i = Cls(**O); a = Markdown(extensions=[i]); b = Markdown(extensions=[i]); a.convert(doc)   (ONE instance in
                TWO live Markdown objects, the OLDER one converts - the string forms build an instance per object, so an
                extension keeping per-Markdown state on itself differs here; every check that uses the naming forms, i.e. forms,
                boolstr and unknown, includes it.  footnotes with UNIQUE_IDS: the ids carry the number of resets the instance has
                seen (documented), compared with the string form after the same number of resets)
                must give the same output (or all raise the same exception type); a fifth variant mixes E with other
                extensions and passes O keyed by the form used.  Also: makeExtension() of the module returns the
                entry point's class, and the entry point's module is `markdown.extensions.E`.
 boolstr (15 %) for an option of E whose default is a bool (or None: codehilite.linenums): the value b given as a string
                spelling ('true','True','YES','y','on','1' / 'false','No','n','off','0','none'; 'none'/'None' -> None for
                a None default) behaves like the bool itself in every naming form; a non-boolean string ('maybe')
                raises ValueError in every form.
                The options checked are those whose default is a bool/None AND every option the extension's code hands to
                parseBoolValue (found by scanning the extension's source, plus a documented list: toc `permalink` is "True/False
                or the link text"): for these "boolean or text" options both true-like and false-like strings must behave
                like the real booleans (a non-boolean string is text there, not an error).
 multi (15 %)   2-4 different configured extensions, all named by strings (random naming forms) in ONE `extensions=[...]` list in
                a random order - `extra` is in the list in 60 % of the cases, half of those in front of the others - must
                behave like the same list of class instances `Cls(**options)` in the same order; like the list with `extra`
                replaced in place by its components (options of `extra` passed per component); and, when no two of the
                extensions register under the same name or at tied priorities in a registry (computed from the registries),
                like any other order of the same list.
 unknown (12 %) an unknown option key raises KeyError in all four forms for every extension except codehilite and extra,
                for which all four forms must accept it and agree.
 extra (13 %)   extensions=['extra'] with extension_configs={'extra': {component: O_c, ...}} (any naming form of extra)
                == extensions=[all of markdown.extensions.extra.extensions] with extension_configs={component: O_c, ...},
                on documents mixing the components' syntax.

distinct = number of different (extension, check, option set, document) evaluated whose reference output is non-empty;
dist['option_sensitive'] counts form cases in which the options changed the output (a naming form that dropped its
options would be seen there).
"""
import copy, importlib, re
from gen import docs as D

NEEDS_DRIVER = False
FINDINGS = []   # no known finding for C19
PASS_THROUGH = ('codehilite', 'extra')

TRUE_S = ['true', 'True', 'TRUE', 'yes', 'YES', 'y', 'Y', 'on', 'On', '1']
FALSE_S = ['false', 'False', 'FALSE', 'no', 'No', 'n', 'N', 'off', 'OFF', '0']
BAD_S = ['maybe', 'tru', '2', 'yess', '', 'nope', 'T']


def bundled():
    """{short name: (dotted module, class name, class)} from the installed entry points"""
    from markdown import util
    out = {}
    for ep in util.get_installed_extensions():
        mod, _, cls = ep.value.partition(':')
        if mod.startswith('markdown.extensions.') and ep.name not in out:
            out[ep.name] = (mod, cls, ep.load())
    return out


def option_defaults(cls):
    return {k: v[0] for k, v in cls().config.items()}


# options documented as "True/False or <something else>" although their default is not a bool (docs/extensions/*.md)
DOCUMENTED_BOOLISH = {'toc': ['permalink']}
_PBV = re.compile(r'parseBoolValue\(((?:[^()]|\([^()]*\))*)\)')


def boolish_options(B, defaults):
    """[(extension, option, default, strict)]: options with a bool/None default (strict: a non-boolean string is an error) and
    options the extension's own code passes through parseBoolValue or documents as boolean-or-text (not strict)."""
    import inspect
    out = []
    for e in sorted(B):
        keys = defaults[e]
        named = set(DOCUMENTED_BOOLISH.get(e, []))
        try:
            src = inspect.getsource(importlib.import_module(B[e][0]))
            for call in _PBV.findall(src):
                named.update(re.findall(r"""['"](\w+)['"]""", call))
        except Exception:
            pass
        for k, dv in keys.items():
            if isinstance(dv, bool) or dv is None: out.append((e, k, dv, True))
            elif k in named: out.append((e, k, dv, False))
    return out


# ---- documents exercising one extension ------------------------------------------------------------------------------

def _p_codehilite(rng):
    first = rng.choice([':::python', '#!python', ':::js hl_lines="1"', '#!/usr/bin/python', '', ':::text'])
    body = [first] if first else []
    body += [rng.choice(['x = 1', 'def f(a): return a < b', '<b>&amp;</b>', 'print("é")']) for _ in range(rng.randint(1, 3))]
    return '\n'.join('    ' + l for l in body)


def _p_legacy_attrs(rng):
    return rng.choice(['A para {@id=%s} here', '*em{@class=%s}* t', '![alt {@title=%s}](/i.png)', '# Head {@id=%s}', '- li {@data-x=%s}']) % rng.choice(['a', 'b1', 'x y'.split()[0]])


def _p_legacy_em(rng):
    return rng.choice(['_connected_words_ and a_b_c', '__strong_em__ _x_y_', 'this_is_snake _em_ __st__', '_a __b__ c_', '*a_b* _a*b_']) + ' ' + D.words(rng)


def _p_nl2br(rng):
    return '\n'.join(D.text(rng, 1, 3) for _ in range(rng.randint(2, 4)))


def _p_sane(rng):
    return rng.choice(['1. one\n2. two\n- dash\n* star', '3. three\n4. four', '- a\n1. b\n2. c', '* x\n\n+ y\n\n1) z', '2. two\n\n- a\n+ b'])


def _p_smarty(rng):
    return ' '.join(rng.choice(['"quoted"', "'single'", "it's", 'a -- b', 'c --- d', 'wait...', '<<guil>>', "'90s", '"a \'b\' c"', '1980\'s', '"', "''", 'x--y', '\\"esc\\"'])
                    for _ in range(rng.randint(1, 5)))


def _p_wikilinks(rng):
    return ' '.join(rng.choice(['[[Wiki Page]]', '[[w]]', '[[a_b-c]]', '[[ spaced ]]', '[[日本]]', 'text', '[[x/y]]']) for _ in range(rng.randint(1, 4)))


def _p_attr(rng):
    return rng.choice(['para\n{: #p .c k=v }', '# H {: .h }', '*e*{: .e } `c`{#i}', '- li\n{: .l }', 'Term {: .t }\n:   def', '| a {: .x } | b |\n|---|---|\n| c | d |', '[l](/u){: target=_blank }'])


def _p_md_in_html(rng):
    return rng.choice(['<div markdown="1">\n%s\n</div>', '<div markdown="block">\n\n%s\n\n</div>', '<p markdown="span">%s</p>', '<section markdown="1">\n# H\n\n%s\n</section>',
                       '<div markdown="0">\n%s\n</div>', '<table><tr><td markdown="1">%s</td></tr></table>']) % D.text(rng, 1, 3)


def _p_footnotes(rng):
    i = rng.choice(D.FNIDS)
    return 'ref[^%s] again[^%s] %s\n\n[^%s]: note %s' % (i, rng.choice(D.FNIDS), D.words(rng), i, D.words(rng)) + rng.choice(['', '\n\n///Footnotes Go Here///', '\n\n{{FN}}'])


def _p_toc(rng):
    return '\n\n'.join([rng.choice(['[TOC]', '{{TOC}}', '[toc]', ''])] + [D.p_heading(rng) for _ in range(rng.randint(1, 4))])


def _p_abbr(rng):
    return D.p_abbr(rng) + '\n\n' + ' '.join(rng.choice(D.ABBRS + ['x']) for _ in range(3))


EXERCISE = {
    'abbr': [_p_abbr], 'admonition': [D.p_admonition], 'attr_list': [_p_attr], 'codehilite': [_p_codehilite, D.p_code], 'def_list': [D.p_deflist],
    'fenced_code': [D.p_fence], 'footnotes': [_p_footnotes, D.p_footnote_def], 'legacy_attrs': [_p_legacy_attrs], 'legacy_em': [_p_legacy_em],
    'md_in_html': [_p_md_in_html, D.p_rawhtml], 'meta': [D.p_meta], 'nl2br': [_p_nl2br], 'sane_lists': [_p_sane, D.p_list], 'smarty': [_p_smarty],
    'tables': [D.p_table], 'toc': [_p_toc, D.p_heading], 'wikilinks': [_p_wikilinks],
}
EXERCISE['extra'] = [f for k in ('fenced_code', 'footnotes', 'attr_list', 'def_list', 'tables', 'abbr', 'md_in_html') for f in EXERCISE[k]]


def exercise_doc(rng, name, counters=None):
    parts = [rng.choice(EXERCISE[name])(rng) for _ in range(rng.randint(1, 3))]
    parts += [rng.choice([D.p_para, D.p_para, D.p_list, D.p_heading, D.p_refdef, D.p_quote, D.p_soup, D.p_escapes, D.p_rawhtml])(rng) for _ in range(rng.randint(0, 3))]
    rng.shuffle(parts)
    if name == 'meta': parts.insert(0, D.p_meta(rng))
    if counters is not None: counters[name] = counters.get(name, 0) + 1
    return '\n\n'.join(parts)


# ---- option sets ---------------------------------------------------------------------------------------------------------

STR_POOL = {'marker': ['[TOC]', '{{TOC}}', ''], 'title': ['', 'Contents'], 'title_class': ['toctitle', 'tt'], 'toc_class': ['toc', 'a b'], 'anchorlink_class': ['toclink', 'al'],
            'permalink_class': ['headerlink', 'pl'], 'permalink_title': ['Permanent link', 'L "q"'], 'baselevel': ['1', '2', 3], 'separator': ['-', '_', ''],
            'PLACE_MARKER': ['///Footnotes Go Here///', '{{FN}}'], 'BACKLINK_TEXT': ['&#8617;', 'back'], 'SUPERSCRIPT_TEXT': ['{}', '[{}]'],
            'BACKLINK_TITLE': ['Jump back to footnote %d in the text', 'Back'], 'SEPARATOR': [':', '-'], 'css_class': ['codehilite', 'hl'], 'pygments_style': ['default'],
            'lang_prefix': ['language-', 'lang-', ''], 'pygments_formatter': ['html'], 'base_url': ['/', '/w/', ''], 'end_url': ['/', '.html', ''], 'html_class': ['wikilink', '']}


def option_set(rng, name, defaults):
    o = dict(D.ext_opts(rng, name))
    for k, dv in defaults.items():
        if k in o or rng.random() > 0.25: continue
        if isinstance(dv, bool): o[k] = rng.choice([True, False])
        elif dv is None: o[k] = rng.choice([True, False, None])
        elif isinstance(dv, str) and k in STR_POOL: o[k] = rng.choice(STR_POOL[k])
        elif isinstance(dv, int) and k == 'toc_depth': o[k] = rng.choice([1, 3, 6, '2-3'])
        elif isinstance(dv, int) and k == 'permalink': o[k] = rng.choice([True, False, 'P'])
    return o


def extra_configs(rng, comps, defaults):
    return {c: o for c in comps if rng.random() < 0.5 for o in [option_set(rng, c, defaults[c])] if o}


# ---- evaluation ---------------------------------------------------------------------------------------------------------------

def _jsonable(o):
    return {k: (v if isinstance(v, (str, int, float, bool, type(None), dict, list)) else repr(v)) for k, v in o.items()}


def convert(doc, exts, configs):
    """('ok', html) or ('exc', exception type name)"""
    import markdown
    try:
        return ('ok', markdown.markdown(doc, extensions=exts, extension_configs=copy.deepcopy(configs)))
    except RecursionError:
        return ('exc', 'RecursionError')
    except Exception as e:
        return ('exc', type(e).__name__)


def convert_first_of_two(doc, exts, configs, extra_resets=0):
    """two live Markdown objects built from the same `extensions` list (the very same objects for instances: "the instance
    will be used as-is"), then the conversion is run on the one built FIRST: ('ok', html) or ('exc', type name)"""
    import markdown
    try:
        first = markdown.Markdown(extensions=exts, extension_configs=copy.deepcopy(configs))
        second = markdown.Markdown(extensions=exts, extension_configs=copy.deepcopy(configs))
        for _ in range(extra_resets): first.reset()
        return ('ok', first.convert(doc)) if second is not first else ('exc', 'same object')
    except RecursionError:
        return ('exc', 'RecursionError')
    except Exception as e:
        return ('exc', type(e).__name__)


def convert_second_of_two(doc, exts, configs, extra_resets=0):
    """as `convert_first_of_two`, but the conversion is run on the object built SECOND (an extension instance that hands its options on
    when it is loaded must still have them for the second object)"""
    import markdown
    try:
        first = markdown.Markdown(extensions=exts, extension_configs=copy.deepcopy(configs))
        second = markdown.Markdown(extensions=exts, extension_configs=copy.deepcopy(configs))
        for _ in range(extra_resets): second.reset()
        return ('ok', second.convert(doc)) if second is not first else ('exc', 'same object')
    except RecursionError:
        return ('exc', 'RecursionError')
    except Exception as e:
        return ('exc', type(e).__name__)


def form_names(name, mod, clsname):
    return {'short': name, 'dotted': 'markdown.extensions.' + name, 'class': '%s:%s' % (mod, clsname)}


def run_forms(B, name, opts, doc, others=()):
    """{form: result}.  `others`: further extension names loaded after E (mixed use)"""
    mod, clsname, cls = B[name]
    res = {}
    for f, s in form_names(name, mod, clsname).items():
        res[f] = convert(doc, [s] + list(others), {s: opts} if opts else {})
    try:
        inst = cls(**copy.deepcopy(opts))
        res['instance'] = convert(doc, [inst] + list(others), {})
    except Exception as e:
        res['instance'] = ('exc', type(e).__name__)
    # one instance given to two live Markdown objects, the older one converts (naming by string builds an instance per object)
    try:
        inst = cls(**copy.deepcopy(opts))
        res['instance_shared_by_two'] = convert_first_of_two(doc, [inst] + list(others), {})
        if name == 'footnotes' and inst.getConfig('UNIQUE_IDS'):
            # documented state of the INSTANCE: UNIQUE_IDS prefixes the ids with the number of reset() calls the extension instance has
            # seen, and every Markdown() resets its extensions once: an instance in two objects has seen two.  The string forms give
            # each object an instance of its own, so the comparable run is: two objects, the first one reset once more.
            short = form_names(name, mod, clsname)['short']
            ref2 = convert_first_of_two(doc, [short] + list(others), {short: opts} if opts else {}, extra_resets=1)
            res['instance_shared_by_two'] = res['short'] if res['instance_shared_by_two'] == ref2 else ('differs', 'shared instance: %s  -- by name after two resets: %s' % (res['instance_shared_by_two'][1][:600], ref2[1][:600]))
    except Exception as e:
        res['instance_shared_by_two'] = ('exc', type(e).__name__)
    # the same with the NEWER object converting
    try:
        inst = cls(**copy.deepcopy(opts))
        res['instance_second_of_two'] = convert_second_of_two(doc, [inst] + list(others), {})
        if name == 'footnotes' and inst.getConfig('UNIQUE_IDS'):
            short = form_names(name, mod, clsname)['short']
            ref2 = convert_second_of_two(doc, [short] + list(others), {short: opts} if opts else {}, extra_resets=1)
            res['instance_second_of_two'] = res['short'] if res['instance_second_of_two'] == ref2 else ('differs', 'shared instance, second object: %s  -- by name after two resets: %s' % (res['instance_second_of_two'][1][:600], ref2[1][:600]))
    except Exception as e:
        res['instance_second_of_two'] = ('exc', type(e).__name__)
    return res


def check_case(case):
    """-> None or (observed, required) strings"""
    B = bundled(); name = case['ext']; kind = case['check']; doc = case['doc']
    mod, clsname, cls = B[name] if name in B else (None, None, None)
    if kind == 'forms':
        problems = []
        if mod != 'markdown.extensions.' + name: problems.append('entry point %s points to module %s' % (name, mod))
        m = importlib.import_module('markdown.extensions.' + name)
        if type(m.makeExtension()) is not cls: problems.append('makeExtension() of %s returns %s, the entry point names %s' % (m.__name__, type(m.makeExtension()).__name__, clsname))
        res = run_forms(B, name, case['opts'], doc, case.get('others', ()))
        if len(set(res.values())) != 1: problems.append('naming forms disagree: ' + repr({k: (v[0], v[1][:300]) for k, v in res.items()}))
        if problems: return ('; '.join(problems), 'the four naming forms give the same conversion')
        case['_ref'] = res['short']
        case['_default'] = convert(doc, [name] + list(case.get('others', ())), {})
        return None
    if kind == 'boolstr':
        k, b, s = case['key'], case['value'], case['spelling']
        ref = run_forms(B, name, {k: b}, doc)
        got = run_forms(B, name, {k: s}, doc)
        case['_ref'] = ref['instance']
        if case.get('bad') and not case.get('strict', True):
            return None if len(set(got.values())) == 1 else (repr({f: (v[0], v[1][:200]) for f, v in got.items()}), 'the same conversion in every naming form (the string is text for this option)')
        if case.get('bad'):
            if any(v != ('exc', 'ValueError') for v in got.values()):
                return (repr({f: (v[0], v[1][:200]) for f, v in got.items()}), 'ValueError for the non-boolean string %r given to the boolean option %s in every form' % (s, k))
            return None
        if len(set(ref.values())) != 1 or any(v != ref['instance'] for v in got.values()):
            return ('with %r: %r' % (s, {f: (v[0], v[1][:300]) for f, v in got.items()}), 'as with %r: %r' % (b, (ref['instance'][0], ref['instance'][1][:300])))
        return None
    if kind == 'unknown':
        res = run_forms(B, name, case['opts'], doc)
        case['_ref'] = res['short']
        if name in PASS_THROUGH:
            if len(set(res.values())) != 1 or res['short'][0] != 'ok':
                return (repr({f: (v[0], v[1][:200]) for f, v in res.items()}), '%s passes unknown options through: accepted, same output, in every form' % name)
        elif any(v != ('exc', 'KeyError') for v in res.values()):
            return (repr({f: (v[0], v[1][:200]) for f, v in res.items()}), 'KeyError for the unknown option in every form')
        return None
    if kind == 'extra':
        import markdown.extensions.extra as X
        comps = list(X.extensions)
        form = form_names('extra', *B['extra'][:2])[case['form']] if case['form'] != 'instance' else None
        if form is None: a = convert(doc, [B['extra'][2](**copy.deepcopy(case['opts']))], {})
        else: a = convert(doc, [form], {form: case['opts']} if case['opts'] else {})
        b = convert(doc, comps, case['opts'])
        case['_ref'] = b
        if a != b: return ('extra: (%s) %s' % (a[0], a[1][:1200]), 'components %r: (%s) %s' % (comps, b[0], b[1][:1200]))
        if sorted(comps) != sorted(['fenced_code', 'footnotes', 'attr_list', 'def_list', 'tables', 'abbr', 'md_in_html']):
            return ('extra lists %r' % comps, 'the documented components')
        return None
    if kind == 'multi':
        import markdown.extensions.extra as X
        items = case['items']     # [[name, form, opts], ...] in list order
        names = [it[0] for it in items]

        def strings(its):
            fs = [form_names(n, *B[n][:2])[f] for n, f, o in its]
            return convert(doc, fs, {fn: o for fn, (n, f, o) in zip(fs, its) if o})

        a = strings(items)
        try:
            insts = [B[n][2](**copy.deepcopy(o)) for n, f, o in items]
            b = convert(doc, insts, {})
        except Exception as e:
            b = ('exc', type(e).__name__)
        case['_ref'] = b
        if a != b:
            return ('named by strings %r: (%s) %s' % ([(n, f) for n, f, o in items], a[0], a[1][:1200]), 'as class instances in the same order: (%s) %s' % (b[0], b[1][:1200]))
        comps = list(X.extensions)
        if 'extra' in names and not (set(names) & set(comps)):
            i = names.index('extra'); eo = items[i][2]
            expanded = items[:i] + [[c, 'short', eo.get(c, {})] for c in comps] + items[i + 1:]
            c = strings(expanded)
            if c != a:
                return ('with extra: (%s) %s' % (a[0], a[1][:1200]), 'with extra replaced by its components %r: (%s) %s' % (comps, c[0], c[1][:1200]))
        if case.get('perm') and order_free(names):
            d = strings([items[j] for j in case['perm']])
            if d != a:
                return ('order %r: (%s) %s' % (names, a[0], a[1][:1200]), 'order %r: (%s) %s' % ([names[j] for j in case['perm']], d[0], d[1][:1200]))
        return None
    raise ValueError(kind)


_SIG = {}


def _reg_sig(name):
    """what loading the extension registers or replaces: {(registry, item name): priority}"""
    import markdown
    def sig(exts):
        md = markdown.Markdown(extensions=exts); out = {}
        for rn, reg in (('pre', md.preprocessors), ('block', md.parser.blockprocessors), ('inline', md.inlinePatterns), ('tree', md.treeprocessors), ('post', md.postprocessors)):
            for p_ in reg._priority: out[(rn, p_.name)] = (p_.priority, type(reg._data[p_.name]).__name__)
        return out
    if name not in _SIG:
        if '' not in _SIG: _SIG[''] = sig([])
        _SIG[name] = {k: v[0] for k, v in sig([name]).items() if _SIG[''].get(k) != v}
    return _SIG[name]


def order_free(names):
    """no two of the extensions register under the same name or at the same priority in one registry (then the order of loading
    cannot matter); computed from the registries, False when that cannot be determined"""
    try:
        sigs = [_reg_sig(n) for n in names]
    except Exception:
        return False
    for i in range(len(sigs)):
        for j in range(i + 1, len(sigs)):
            for (ra, na), pa in sigs[i].items():
                for (rb, nb), pb in sigs[j].items():
                    if ra == rb and (na == nb or pa == pb): return False
    return True


def replay(witness):
    return check_case(dict(witness)) is not None


def replay_violation(v):
    return check_case(dict(v['input'])) is not None


def search(driver, rng, n):
    B = bundled()
    names = sorted(B)
    defaults = {k: option_defaults(B[k][2]) for k in names}
    boolopts = boolish_options(B, defaults)
    dist = {'extensions': len(names), 'checks': {}, 'per_ext': {}, 'option_sensitive': 0, 'forms_with_options': 0, 'exceptions': {}, 'empty_ref': 0, 'bool_options': len(boolopts)}
    viol = []; samples = []; seen = set(); cases = 0
    if len(names) != 18:
        viol.append({'input': {'names': names}, 'config': {}, 'observed': '%d bundled entry points: %r' % (len(names), names), 'required': 'the 18 bundled extensions are registered as entry points', 'finding': None})
    while cases < n:
        r = rng.random()
        kind = 'forms' if r < 0.45 else 'boolstr' if r < 0.60 else 'unknown' if r < 0.72 else 'multi' if r < 0.87 else 'extra'
        if kind == 'forms':
            e = names[cases % len(names)] if rng.random() < 0.5 else rng.choice(names)   # every extension regularly
            opts = option_set(rng, e, defaults[e]) if rng.random() < 0.85 else {}
            if e == 'extra': opts = extra_configs(rng, EXTRA_COMPS, defaults)
            others = rng.sample([x for x in names if x != e], rng.choice([0, 0, 0, 1, 3]))
            case = {'ext': e, 'check': kind, 'opts': _jsonable(opts), 'doc': exercise_doc(rng, e, dist['per_ext']), 'others': others}
        elif kind == 'boolstr':
            e, k, dv, strict = rng.choice(boolopts + [x for x in boolopts if not x[3]] * 3)   # boolean-or-text options are few: weight them
            bad = rng.random() < 0.15
            if bad: b, s = True, rng.choice(BAD_S)
            elif dv is None and rng.random() < 0.34: b, s = None, rng.choice(['none', 'None', 'NONE'])
            else:
                b = rng.random() < 0.5
                s = rng.choice(TRUE_S if b else FALSE_S + (['none', 'None'] if dv is not None else []))
            case = {'ext': e, 'check': kind, 'key': k, 'value': b, 'spelling': s, 'bad': bad, 'strict': strict, 'doc': exercise_doc(rng, e, dist['per_ext'])}
            if not strict: dist['boolish_text_options'] = dist.get('boolish_text_options', 0) + 1
        elif kind == 'unknown':
            e = rng.choice(names)
            opts = {rng.choice(['no_such_option', 'Permalink', 'glossary_', 'x', 'linenos', 'toc'] if e != 'toc' else ['no_such_option', 'Permalink', 'x']): rng.choice([1, 'v', True, None])}
            if defaults[e] and rng.random() < 0.4: opts.update(_jsonable(option_set(rng, e, defaults[e])))
            opts = {k: v for k, v in opts.items() if k not in defaults[e] or len(opts) > 1}
            if not any(k not in defaults[e] for k in opts): opts['no_such_option'] = 1
            case = {'ext': e, 'check': kind, 'opts': opts, 'doc': exercise_doc(rng, e, dist['per_ext'])}
        elif kind == 'multi':
            m = rng.choice([2, 2, 3, 4])
            with_extra = rng.random() < 0.6
            pool = [x for x in names if x != 'extra' and not (with_extra and x in EXTRA_COMPS and rng.random() < 0.7)]
            chosen = rng.sample(pool, m - 1 if with_extra else m)
            rng.shuffle(chosen)
            if with_extra: chosen.insert(0 if rng.random() < 0.5 else rng.randint(0, len(chosen)), 'extra')
            items = []
            for x in chosen:
                o = extra_configs(rng, EXTRA_COMPS, defaults) if x == 'extra' else (option_set(rng, x, defaults[x]) if rng.random() < 0.85 else {})
                items.append([x, rng.choice(['short', 'short', 'dotted', 'class']), _jsonable_nested(o) if x == 'extra' else _jsonable(o)])
            perm = list(range(len(items))); rng.shuffle(perm)
            doc = '\n\n'.join(exercise_doc(rng, x, dist['per_ext']) for x in chosen if x != 'meta')
            if 'meta' in chosen: doc = D.p_meta(rng) + '\n\n' + doc
            case = {'ext': 'multi', 'check': kind, 'items': items, 'perm': perm if perm != sorted(perm) else None, 'doc': doc or D.p_para(rng)}
            if with_extra and chosen[0] == 'extra': dist['multi_extra_first'] = dist.get('multi_extra_first', 0) + 1
        else:
            opts = extra_configs(rng, EXTRA_COMPS, defaults)
            case = {'ext': 'extra', 'check': kind, 'opts': _jsonable_nested(opts), 'form': rng.choice(['short', 'dotted', 'class', 'instance']), 'doc': exercise_doc(rng, 'extra', dist['per_ext'])}
        cases += 1
        dist['checks'][kind] = dist['checks'].get(kind, 0) + 1
        try:
            bad = check_case(case)
        except Exception as ex:   # the oracle itself must not die on a broken tree: report
            bad = ('check raised %s: %s' % (type(ex).__name__, str(ex)[:300]), 'the check completes')
        ref = case.pop('_ref', None); dflt = case.pop('_default', None)
        if ref is not None:
            if ref[0] == 'exc': dist['exceptions'][ref[1]] = dist['exceptions'].get(ref[1], 0) + 1
            elif ref[1]: seen.add((case['ext'], kind, repr(case.get('opts', case.get('spelling', case.get('items')))), case['doc']))
            else: dist['empty_ref'] += 1
        if kind == 'forms' and case['opts']:
            dist['forms_with_options'] += 1
            if dflt is not None and dflt != ref: dist['option_sensitive'] += 1
        if bad and len(viol) < 30:
            viol.append({'input': case, 'config': {'extension': case['ext'], 'options': case.get('opts', case.get('items', {case.get('key'): case.get('spelling')}))},
                         'observed': bad[0][:2500], 'required': bad[1][:2500], 'finding': None})
        elif not bad and len(samples) < 4 and rng.random() < 0.05:
            samples.append(case)
    return {'cases': cases, 'distinct': len(seen), 'violations': viol, 'samples': samples, 'dist': dist}


EXTRA_COMPS = ['fenced_code', 'footnotes', 'attr_list', 'def_list', 'tables', 'abbr', 'md_in_html']


def _jsonable_nested(o):
    return {k: _jsonable(v) for k, v in o.items()}
