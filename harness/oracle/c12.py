"""C12 search oracle: instances confined to one thread each behave, concurrently, as they do one after another.

Two parts.
 1. THREADED RUNS.  rounds = n/50; per round N=8 configurations (random subsets of the 18 bundled extensions with
    options, gen/docs.config) and 8 document sequences (gen/docs.document: link references, footnotes, abbreviations,
    toc headings, meta-data, fences, raw HTML, tables, lists, soups...).  Each thread constructs ITS OWN instance and
    converts ITS OWN sequence (reset() between documents).  First the 8 workers run one after another (each in a
    thread of its own, so that stack depth - which `nearing_recursion_limit` reads - is the same), then all 8
    concurrently behind a barrier with `sys.setswitchinterval(1e-6)` (restored afterwards).  Every observation
    (html, toc, Meta) of the concurrent run must equal that of the sequential run.  A case = one compared conversion.
    One round in ten (at least one per call) is a CONTENTION round: the 8 threads all use attribute lists / fenced code / extra
    (+ toc, footnotes, abbr, smarty, tables) on documents of 80 constructs each, dense in key=value attribute lists, footnotes,
    abbreviations, references, every value carrying the number of its thread (`dense_round`).
    The inputs are deterministic in `rng`; the interleaving itself is the OS's.
 2. WRITE-FOOTPRINT CENSUS (`census()`, run once per search; deterministic).  Static: AST scan of markdown/**/*.py for
    run-time writes to module- or class-level state.  Dynamic: fingerprint of all module globals and class
    dictionaries of every loaded `markdown.*` module (and the private html.parser copy) before/after constructing
    instances with every extension and converting a batch of documents.  Every written location must be on the
    allow-lists below (established on the unchanged tree); a new one is a violation candidate
    {'input': site, 'observed': 'shared state written at run time'}.

distinct = number of different (extension set, document) pairs converted concurrently with non-empty output.
"""
import ast, glob, os, sys, threading
from gen import docs as D
from gen import canon, footprint

NEEDS_DRIVER = False
FINDINGS = []      # no known finding for C12
N_THREADS = 8

# ---- allow-lists (unchanged tree) ------------------------------------------------------------------------------------
# static sites: (file relative to the markdown package, enclosing function, what)
STATIC_ALLOW = {
    # `Extension.config = {}` is a class-level default, but every bundled extension with options assigns its own
    # `self.config = {...}` in __init__ before setConfigs runs, and for the option-less ones the shared dict is empty, so
    # `self.config[key]` raises KeyError before anything is stored: the class-level dict is never written.
    # (The scan sees `self.config[...][...] = value` and cannot know that `self.config` is per-instance.)
    ('extensions/__init__.py', 'Extension.setConfig', 'assign self.config(class-level)[...][...]'),
    # Nothing else: the memo in util.get_installed_extensions is an lru_cache decorator (see DYN_ALLOW), the
    # html.parser patches are module-level statements executed once at import.
}
# dynamic locations: (namespace path, attribute).  A '*' attribute allows every entry of that namespace.
DYN_ALLOW = {
    ('markdown.util', 'get_installed_extensions'):
        'lru_cache memo of the entry-point list: written once with the value of a pure function of the installation (memo cell)',
    ('markdown.extensions.attr_list._scanner', 'match'):
        're.Scanner.scan (stdlib) stores the last match on the shared scanner object before calling an action; the actions '
        'of attr_list take the token text only and never read it (write-only scratch) - CHECKED on every run by allow_conditions()',
}
# besides: an entry whose value is a *module* appearing in a package namespace (lazy `import_module` of an extension sets
# `markdown.extensions.<name>`): sys.modules / importlib are trusted (DESIGN C12 Limits); handled by _is_lazy_import.


def allow_conditions():
    """The allow-list entries are conditional on their justification; what can be checked is checked here (deterministic, no
    threads involved).  -> [(namespace, attribute, what no longer holds)]
    `_scanner.match`: re.Scanner.scan stores the current match on the ONE module-level scanner object right before it calls the
    action `action(scanner, token_text)`.  That is harmless only as long as no action looks at the scanner object: every action of
    the lexicon must be a plain function that never reads its first parameter (a read of `scanner.match` in one thread can see
    the match of another thread's document)."""
    import dis
    bad = []
    try:
        from markdown.extensions import attr_list
        sc = getattr(attr_list, '_scanner', None)
    except Exception:
        sc = None
    if sc is not None:
        for phrase, action in getattr(sc, 'lexicon', []):
            if action is None or isinstance(action, str): continue
            code = getattr(action, '__code__', None)
            if code is None or code.co_argcount < 1:
                bad.append(('markdown.extensions.attr_list._scanner', 'match', 'action %r for %r is not a plain function: cannot tell that it ignores the scanner' % (action, phrase))); continue
            first = code.co_varnames[0]
            reads = [i.opname for i in dis.get_instructions(code) if i.argval == first and i.opname.startswith(('LOAD_FAST', 'LOAD_DEREF', 'LOAD_CLOSURE'))]
            if first in code.co_cellvars or reads:
                bad.append(('markdown.extensions.attr_list._scanner', 'match',
                            'scanner action %s (pattern %r) reads the scanner object it is handed (%s): the shared per-scanner state `match` is no longer write-only' % (getattr(action, '__name__', action), phrase, ', '.join(sorted(set(reads))) or 'closure')))
    return bad


def _is_lazy_import(before, after):
    return before == '<absent>' and after.startswith('<module ')


# ---- static scan ------------------------------------------------------------------------------------------------------
MUTATORS = {'append', 'extend', 'insert', 'pop', 'remove', 'clear', 'update', 'add', 'discard', 'setdefault', 'popitem', 'sort', 'reverse',
            'appendleft', 'extendleft', '__setitem__', '__delitem__', 'register', 'deregister'}


def _pkg_dir():
    import markdown
    return os.path.dirname(os.path.abspath(markdown.__file__))


class _Scan(ast.NodeVisitor):
    def __init__(self, rel, tree):
        self.rel = rel; self.sites = []
        self.modnames = set(); self.classattrs = set(); self.selfassigned = set()
        for node in tree.body:
            for t in self._bound(node): self.modnames.add(t)
        for node in ast.walk(tree):
            if isinstance(node, ast.ClassDef):
                for st in node.body:
                    if isinstance(st, (ast.Assign, ast.AnnAssign, ast.AugAssign)):
                        for t in self._bound(st): self.classattrs.add(t)
            if isinstance(node, (ast.Assign, ast.AnnAssign, ast.AugAssign)):
                for t in (node.targets if isinstance(node, ast.Assign) else [node.target]):
                    if isinstance(t, ast.Attribute) and isinstance(t.value, ast.Name) and t.value.id == 'self': self.selfassigned.add(t.attr)
        self.stack = []   # (function qualname, local names, global names)
        self.qual = []

    @staticmethod
    def _bound(node):
        out = []
        if isinstance(node, (ast.FunctionDef, ast.AsyncFunctionDef, ast.ClassDef)): out.append(node.name)
        elif isinstance(node, (ast.Import, ast.ImportFrom)):
            for a in node.names: out.append((a.asname or a.name).split('.')[0])
        elif isinstance(node, (ast.Assign, ast.AnnAssign, ast.AugAssign)):
            for t in (node.targets if isinstance(node, ast.Assign) else [node.target]):
                for n in ast.walk(t):
                    if isinstance(n, ast.Name) and isinstance(n.ctx, ast.Store): out.append(n.id)
        elif isinstance(node, (ast.If, ast.Try, ast.With, ast.For, ast.While)):
            for ch in ast.iter_child_nodes(node):
                out.extend(_Scan._bound(ch))
        return out

    def visit_ClassDef(self, node):
        self.qual.append(node.name); self.generic_visit(node); self.qual.pop()

    def _func(self, node):
        local = set(a.arg for a in node.args.args + node.args.kwonlyargs + node.args.posonlyargs)
        if node.args.vararg: local.add(node.args.vararg.arg)
        if node.args.kwarg: local.add(node.args.kwarg.arg)
        glob_ = set()
        for n in ast.walk(node):
            if isinstance(n, ast.Global): glob_.update(n.names)
            elif isinstance(n, ast.Name) and isinstance(n.ctx, ast.Store): local.add(n.id)
            elif isinstance(n, (ast.Import, ast.ImportFrom)) and n is not node:
                for a in n.names: local.add((a.asname or a.name).split('.')[0])
        local -= glob_
        self.qual.append(node.name); self.stack.append(('.'.join(self.qual), local, glob_))
        for g in sorted(glob_): self._site(node, 'global %s' % g)
        self.generic_visit(node)
        self.stack.pop(); self.qual.pop()

    visit_FunctionDef = _func
    visit_AsyncFunctionDef = _func

    def _site(self, node, what):
        self.sites.append((self.rel, self.stack[-1][0] if self.stack else '<module>', what, getattr(node, 'lineno', 0)))

    def _shared_base(self, e):
        """text of the expression if it denotes module- or class-level state, else None"""
        if not self.stack: return None
        local = self.stack[-1][1]
        if isinstance(e, ast.Name):
            if e.id in local or e.id in ('self',): return None
            if e.id == 'cls' or e.id in self.modnames: return e.id
            return None
        if isinstance(e, ast.Attribute):
            v = e.value
            # type(self).x / self.__class__.x
            if isinstance(v, ast.Call) and isinstance(v.func, ast.Name) and v.func.id == 'type': return 'type(...).%s' % e.attr
            if isinstance(v, ast.Attribute) and v.attr == '__class__': return '__class__.%s' % e.attr
            b = self._shared_base(v)
            if b is not None: return '%s.%s' % (b, e.attr)
            # self.X where X is only ever a class-level attribute in this file (never assigned through self)
            if isinstance(v, ast.Name) and v.id == 'self' and e.attr in self.classattrs and e.attr not in self.selfassigned:
                return 'self.%s(class-level)' % e.attr
            return None
        if isinstance(e, ast.Subscript):
            b = self._shared_base(e.value)
            return None if b is None else b + '[...]'
        return None

    def _target(self, node, t, kind):
        if not self.stack: return
        if isinstance(t, (ast.Tuple, ast.List)):
            for x in t.elts: self._target(node, x, kind)
            return
        if isinstance(t, ast.Starred): return self._target(node, t.value, kind)
        if isinstance(t, ast.Name):
            if t.id in self.stack[-1][2]: self._site(node, '%s %s (global)' % (kind, t.id))
            return
        if isinstance(t, ast.Attribute):
            b = self._shared_base(t.value)
            if b is None and isinstance(t.value, ast.Call) and isinstance(t.value.func, ast.Name) and t.value.func.id == 'type': b = 'type(...)'
            if b is None and isinstance(t.value, ast.Attribute) and t.value.attr == '__class__': b = '__class__'
            if b is not None: self._site(node, '%s %s.%s' % (kind, b, t.attr))
            return
        if isinstance(t, ast.Subscript):
            b = self._shared_base(t.value)
            if b is not None: self._site(node, '%s %s[...]' % (kind, b))

    def visit_Assign(self, node):
        for t in node.targets: self._target(node, t, 'assign')
        self.generic_visit(node)

    def visit_AugAssign(self, node):
        self._target(node, node.target, 'augassign'); self.generic_visit(node)

    def visit_AnnAssign(self, node):
        if node.value is not None: self._target(node, node.target, 'assign')
        self.generic_visit(node)

    def visit_Delete(self, node):
        for t in node.targets: self._target(node, t, 'del')
        self.generic_visit(node)

    def visit_Call(self, node):
        f = node.func
        if self.stack and isinstance(f, ast.Attribute) and f.attr in MUTATORS:
            b = self._shared_base(f.value)
            if b is not None: self._site(node, 'call %s.%s()' % (b, f.attr))
        if self.stack and isinstance(f, ast.Name) and f.id in ('setattr', 'delattr') and node.args:
            b = self._shared_base(node.args[0])
            if b is None and isinstance(node.args[0], ast.Call) and isinstance(node.args[0].func, ast.Name) and node.args[0].func.id == 'type': b = 'type(...)'
            if b is not None: self._site(node, 'call %s(%s, ...)' % (f.id, b))
        self.generic_visit(node)


def static_sites(pkg=None):
    """[(file, function, what, line)] of run-time writes to module/class-level state found by the AST scan"""
    pkg = pkg or _pkg_dir()
    sites = []
    for f in sorted(glob.glob(os.path.join(pkg, '**', '*.py'), recursive=True)):
        rel = os.path.relpath(f, pkg)
        if rel == 'test_tools.py': continue          # unittest helpers, not part of conversion
        try: tree = ast.parse(open(f, encoding='utf-8').read())
        except SyntaxError: continue
        s = _Scan(rel, tree); s.visit(tree); sites.extend(s.sites)
    return sites


# ---- dynamic fingerprint (gen/footprint.py) -----------------------------------------------------------------------------

fingerprint = footprint.fingerprint
_load_all = footprint.load_all


def dynamic_writes(batch=120, pristine=True):
    """{(namespace path, attribute): (before, after, phase)} : locations of markdown.* module/class state (module globals,
    every class-level attribute incl. lists/dicts/sets, function defaults and closures) that change while instances are
    CONSTRUCTED with each extension (nothing converted) and then while documents are converted - observed in this
    process and, with `pristine`, in a fresh subprocess (which also shows writes that happen only the first time)."""
    res = {}
    runs = []
    if pristine:
        try: runs.append(('fresh process', footprint.pristine(max(20, batch // 2))))
        except Exception as e: res[('<footprint child>', 'error')] = ('', repr(e)[:200], 'not run')   # reported in dist, not as a write
    runs.append(('this process', footprint.phases(batch)))
    for where, rows in runs:
        for phase, ns, attr, a, b in rows:
            res.setdefault((ns, attr), (a, b, '%s, %s' % (phase, where)))
    return res


def census(batch=120, pristine=True):
    """{'static': [...sites...], 'dynamic': {...}, 'new_static': [...], 'new_dynamic': [...]}"""
    st = static_sites()
    dy = dynamic_writes(batch, pristine)
    new_static = [s for s in st if (s[0], s[1], s[2]) not in STATIC_ALLOW]
    new_dyn = []
    for (ns, attr), (a, b, phase) in sorted(dy.items()):
        if ns == '<footprint child>': continue
        if (ns, attr) in DYN_ALLOW or (ns, '*') in DYN_ALLOW or _is_lazy_import(a, b): continue
        new_dyn.append((ns, attr, a, b, phase))
    return {'static': st, 'dynamic': {'%s :: %s' % k: v for k, v in dy.items()}, 'new_static': new_static, 'new_dynamic': new_dyn, 'allow_broken': allow_conditions()}


# ---- threaded runs ---------------------------------------------------------------------------------------------------

def _observe(md, d):
    try:
        out = md.reset().convert(d)
        return [out, getattr(md, 'toc', None), repr(getattr(md, 'Meta', None))]
    except Exception as e:
        return ['EXC', type(e).__name__]


def _worker(cfg, seq, out, barrier):
    if barrier is not None: barrier.wait()
    try:
        md = D.make(cfg)
    except Exception as e:
        out.append(['EXC-CONSTRUCT', type(e).__name__]); return
    for d in seq: out.append(_observe(md, d))


def run_round(cfgs, seqs):
    """(sequential results, concurrent results)"""
    seq_res = [[] for _ in cfgs]
    for i, (c, s) in enumerate(zip(cfgs, seqs)):
        t = threading.Thread(target=_worker, args=(c, s, seq_res[i], None)); t.start(); t.join()
    con_res = [[] for _ in cfgs]
    barrier = threading.Barrier(len(cfgs))
    old = sys.getswitchinterval()
    try:
        sys.setswitchinterval(1e-6)
        ts = [threading.Thread(target=_worker, args=(c, s, con_res[i], barrier)) for i, (c, s) in enumerate(zip(cfgs, seqs))]
        for t in ts: t.start()
        for t in ts: t.join()
    finally:
        sys.setswitchinterval(old)
    return seq_res, con_res


def _mismatch(cfgs, seqs):
    a, b = run_round(cfgs, seqs)
    return [(i, j, x, y) for i in range(len(cfgs)) for j, (x, y) in enumerate(zip(a[i], b[i] + [None] * (len(a[i]) - len(b[i])))) if x != y]


# ---- contention rounds --------------------------------------------------------------------------------------------------
# All threads use the SAME extensions at the same moment on documents that are dense in constructs handled through state that is
# shared by all instances of the process if anything is (the module-level attribute-list scanner, compiled patterns, class-level
# tables), every value carrying the number of its thread - what one thread reads from another thread's document shows in its output.
DENSE_CONFIGS = [{'extensions': ['attr_list']}, {'extensions': ['fenced_code', 'attr_list']}, {'extensions': ['extra']}, {'extensions': ['attr_list', 'sane_lists'], 'tab_length': 8},
                 {'extensions': ['attr_list', 'toc', 'footnotes']}, {'extensions': ['extra', 'smarty', 'toc']}, {'extensions': ['fenced_code', 'abbr'], 'output_format': 'html'},
                 {'extensions': ['attr_list', 'tables', 'abbr', 'footnotes', 'wikilinks']}]


def dense_doc(rng, t, lines):
    out = []
    for i in range(lines):
        k = rng.randrange(8)
        if k == 0: out.append('# H%d {: #h%d-%d k%d=v%d title="T %d" data-o=\'o %d\' }' % (i, t, i, t, t, t, t))
        elif k == 1: out.append('para *e*{: .e a%d=b%d lang=\'l%d\' } and [l](/u){: rel="r%d" x=y%d }' % (t, t, t, t, t))
        elif k == 2: out.append('text %d\n{: #p%d-%d data-owner=\'thread %d\' q="%d" }' % (i, t, i, t, t))
        elif k == 3: out.append('``` { .l%d #c%d-%d data-o="t %d" title=\'b %d\' key%d=val%d }\ncode %d\n```' % (t, t, i, t, i, t, t, t))
        elif k == 4: out.append('note%d[^n%d] again[^n%d] AB%d [[Page %d]]\n\n[^n%d]: body %d\n\n*[AB%d]: abbr of %d' % (i, t, t, t, t, t, t, t, t))
        elif k == 5: out.append('[r%d][] and [x][r%d] "q%d" -- \'s%d\'...\n\n[r%d]: /u%d "t %d"' % (t, t, t, t, t, t, t))
        elif k == 6: out.append('| a%d | b {: k=%d } |\n|---|:-:|\n| `c%d` | d |' % (t, t, t))
        else: out.append('Title %d\n=======\n\n- i%d\n    - n%d\n\nTerm%d\n:   def %d' % (t, t, t, t, t))
    return '\n\n'.join(out)


def dense_round(rng, lines=80):
    cfgs = [dict(c, extension_configs={}) for c in DENSE_CONFIGS]
    rng.shuffle(cfgs)
    seqs = [[dense_doc(rng, t, lines) for _ in range(2)] for t in range(len(cfgs))]
    return cfgs, seqs


def replay(witness):
    return False


def replay_violation(v):
    inp = v['input']
    if isinstance(inp, dict) and 'configs' in inp:
        return any(_mismatch(inp['configs'], inp['seqs']) for _ in range(20))   # a race needs several attempts
    c = census(batch=60)
    return bool(c['new_static'] or c['new_dynamic'] or c['allow_broken'])


def search(driver, rng, n):
    dist = {'rounds': 0, 'threads': N_THREADS, 'conversions': 0, 'exceptions': 0, 'pieces': {}, 'ext_count': {}, 'static_sites': 0, 'dynamic_written': 0}
    viol = []; samples = []; seen = set(); cases = 0
    rounds = max(1, n // 50)
    n_dense = max(1, rounds // 10)             # contention rounds (see dense_round): one in ten, at least one per call
    for rnd in range(rounds):
        if rnd < n_dense:
            cfgs, seqs = dense_round(rng)
            dist['dense_rounds'] = dist.get('dense_rounds', 0) + 1
        else:
            cfgs = []
            while len(cfgs) < N_THREADS:
                c = D.config(rng)
                try: D.make(c)
                except Exception: continue
                if c in cfgs and rng.random() < 0.8: continue     # differently configured (identical ones only occasionally)
                cfgs.append(c)
                dist['ext_count'][len(c['extensions'])] = dist['ext_count'].get(len(c['extensions']), 0) + 1
            seqs = [[D.document(rng, counters=dist['pieces']) for _ in range(rng.randint(3, 9))] for _ in range(N_THREADS)]
        a, b = run_round(cfgs, seqs)
        dist['rounds'] += 1
        for i in range(N_THREADS):
            for j, x in enumerate(a[i]):
                cases += 1; dist['conversions'] += 1
                if x[0] in ('EXC', 'EXC-CONSTRUCT'): dist['exceptions'] += 1
                elif x[0]: seen.add((tuple(sorted(cfgs[i]['extensions'])), seqs[i][j]))
                y = b[i][j] if j < len(b[i]) else None
                if x != y and len(viol) < 20:
                    viol.append({'input': {'configs': cfgs, 'seqs': seqs, 'thread': i, 'doc_index': j}, 'config': cfgs[i],
                                 'observed': 'concurrent: ' + repr(y)[:1000], 'required': 'sequential: ' + repr(x)[:1000], 'finding': None})
        if len(samples) < 2: samples.append({'configs': [c['extensions'] for c in cfgs], 'first_docs': [s[0] for s in seqs]})
    # census (deterministic; once per call)
    try:
        c = census(batch=80)
        dist['static_sites'] = len(c['static']); dist['dynamic_written'] = sorted(c['dynamic'])
        for s in c['new_static']:
            viol.append({'input': {'site': list(s)}, 'config': {}, 'observed': 'shared state written at run time (static scan): %s in %s:%s line %d' % (s[2], s[0], s[1], s[3]),
                         'required': 'no run-time write to module- or class-level state outside the allow-list', 'finding': None})
        for ns, attr, x, y, phase in c['new_dynamic']:
            viol.append({'input': {'site': [ns, attr]}, 'config': {}, 'observed': 'shared state written at run time (%s): %s :: %s  %s -> %s' % (phase, ns, attr, x, y),
                         'required': 'module globals and class dictionaries of markdown.* unchanged by constructing/using instances (allow-list: memo cells)', 'finding': None})
        for ns, attr, what in c['allow_broken']:
            viol.append({'input': {'site': [ns, attr], 'condition': what}, 'config': {}, 'observed': 'allow-listed shared cell %s :: %s: %s' % (ns, attr, what),
                         'required': 'shared state that every instance writes is on the allow-list only while nothing reads it back (write-only scratch) or it is a memo of a pure function', 'finding': None})
        dist['allow_conditions_checked'] = 1
        cases += 1
    except Exception as e:   # the census must not take the search down; say so
        dist['census_error'] = repr(e)[:300]
    return {'cases': cases, 'distinct': len(seen), 'violations': viol, 'samples': samples, 'dist': dist}
