"""C17 search oracle: generated anchors are unique and every generated link resolves (toc, footnotes).

Everything is observed at the OUTPUT (read by the strict reader `htmlread2`) plus `md.toc` / `md.toc_tokens`.

toc part.  Generated: heading sequences -- level sequences exhaustively (function level on `nest_toc_tokens` up to
length 5 [7 when n >= 50 000]; document level up to length 5 [6 when n >= 50 000], longer ones sampled), random
documents with titles from a pool with duplicates / same-slug variants / empty / punctuation-only / non-ASCII /
inline markup / titles that look like generated ids (`_1`, `a_1`), explicit ids through attr_list on headings,
paragraphs and inline elements (chosen to collide with generated slugs), headings inside quotes and list items,
ATX/Setext/closing hashes, `[TOC]` marker; options baselevel, toc_depth (int and range), anchorlink, permalink
(True / text / leading), slugify (default / slugify_unicode), separator; optionally footnotes alongside (with SEPARATOR `-`
so that `fn-1` can collide with a slug).
Required (statement of C17):
  T1 every heading element of the output carries a non-empty id;
  T2 an id that was GENERATED (heading without explicit id) occurs exactly once among all id attributes of the output
     (explicit ids colliding with each other are the author's business and are not checked);
  T3 the flattened toc (md.toc HTML and md.toc_tokens) lists exactly the headings whose level lies in toc_depth, in
     document order, each entry linking to `#` + id of its heading, with the token's level = the heading's level;
  T4 the nesting of md.toc and md.toc_tokens is the outline of the levels (parent = nearest preceding entry on the
     open chain with a strictly smaller level);
  T5 every `href="#…"` in the output (anchorlink, permalink, embedded toc) has a target id in the output, and the
     anchorlink/permalink of a heading point to that heading's own id.

footnote part.  Generated: definition/reference patterns -- ids (digits, words, with spaces, `:`, non-ASCII, case variants),
repeated references, references inside emphasis / link text / headings / quotes / lists / other footnote bodies / its
own body, undefined references, multi-paragraph bodies, bodies ending in code or a list, redefinition of an id, the
place marker; options UNIQUE_IDS, SEPARATOR; two documents in a row on one instance; two live instances (both constructed,
the other one converts a document with labels from the same pool first, then a fresh one converts the checked document).
Required:
  F1 every `<sup><a class="footnote-ref" href="#X">` targets an existing `<li id="X">` of the footnote list; sup ids
     are pairwise distinct;
  F2 every back-link `a.footnote-backref` of a footnote targets an existing `<sup id>` that refers to this footnote;
  F3 a footnote referenced k times (k = number of such sups in the output) has exactly k back-links with pairwise
     distinct targets.
Known regions (tagged, generated with small probability only):
  F-C17-1 empty footnote body (the li has no block) -> no back-link;  F-C17-2 k = 0 -> one dangling back-link;
  F-C17-3 (NEW, reported) a reference inside an image alt text or a link title is flattened to text (no sup) but still
          counted -> extra dangling back-links.

distinct / non-trivial: a toc case is non-trivial if it has >= 2 headings in range or an explicit id or a duplicate
slug; a footnote case if it has >= 1 rendered reference.  `distinct` counts distinct (source, config) pairs of those.
"""
import itertools, re
import htmlread2 as H
from gen.timeout import time_limit, ConversionTimeout

NEEDS_DRIVER = False

FINDINGS = [
    {'id': 'F-C17-1', 'property': 'C17', 'status': 'open',
     'what': 'footnote with an empty body gets no back-link although it is referenced',
     'witness': {'kind': 'fn', 'src': 'x[^a] y[^a]\n\n[^a]:', 'config': {}}},
    {'id': 'F-C17-2', 'property': 'C17', 'status': 'open',
     'what': "an unused footnote's back-link #fnref:ID has no target",
     'witness': {'kind': 'fn', 'src': 'y\n\n[^1]: note', 'config': {}}},
    {'id': 'F-C17-3', 'property': 'C17', 'status': 'open',
     'what': 'a footnote reference inside an image alt text or link title is flattened to text but counted: extra back-links dangle',
     'witness': {'kind': 'fn', 'src': 'a[^1] ![alt[^1]](u)\n\n[^1]: note', 'config': {}}},
    {'id': 'F-C17-5', 'property': 'C17', 'status': 'open',
     'what': 'a footnote definition inside the text of another footnote: the table of footnotes is extended while it is iterated over; inside the LAST footnote the new footnote is never rendered and its reference dangles (inside an earlier one: RuntimeError, F-C02-2)',
     'witness': {'kind': 'fn', 'src': 'x[^2] y[^1]\n\n[^1]: [^2]: q', 'config': {}}},
    {'id': 'F-C17-4', 'property': 'C17', 'status': 'fixed', 'commit': '68e5106',
     'what': 'toc + attr_list: an explicit id written with a backslash escape ({#a\\-b}) still held the escape placeholder when toc collected the ids in use, so a generated id could collide with it (two headings with id a-b)',
     'witness': {'kind': 'toc', 'src': '# x {#a\\-b}\n\n# a b\n\n[TOC]', 'config': {'toc': {}, 'attr_list': True}, 'explicit': [True, False]}},
    {'id': 'F-C17-4', 'property': 'C17', 'status': 'fixed', 'commit': '68e5106',
     'what': 'toc + attr_list: an explicit id written with a backslash escape ({#a\\-b}) still held the escape placeholder when toc collected the ids in use, so a generated id could collide with it (two headings with id a-b)',
     'witness': {'kind': 'toc', 'src': '# x {#a\\_1}\n\n# a\n\n# a\n\n[TOC]', 'config': {'toc': {}, 'attr_list': True}, 'explicit': [True, False, False]}},
]


# ------------------------------------------------------------------------------------------------ helpers
def _mk(exts_cfg):
    """exts_cfg: json-able {'toc': {...} | None, 'footnotes': {...} | None, 'attr_list': bool, 'fmt': 'xhtml'|'html'}"""
    import markdown
    from markdown.extensions.toc import TocExtension, slugify, slugify_unicode
    from markdown.extensions.footnotes import FootnoteExtension
    exts = []
    if exts_cfg.get('toc') is not None:
        c = dict(exts_cfg['toc'])
        if 'slugify' in c: c['slugify'] = {'default': slugify, 'unicode': slugify_unicode}[c['slugify']]
        exts.append(TocExtension(**c))
    if exts_cfg.get('footnotes') is not None:
        exts.append(FootnoteExtension(**exts_cfg['footnotes']))
    if exts_cfg.get('attr_list'): exts.append('attr_list')
    return markdown.Markdown(extensions=exts, output_format=exts_cfg.get('fmt', 'xhtml'))


def outline(levels):
    """parent index (or -1) of every entry: nearest preceding entry on the open chain with a strictly smaller level"""
    par = []; stack = []
    for i, l in enumerate(levels):
        while stack and levels[stack[-1]] >= l: stack.pop()
        par.append(stack[-1] if stack else -1)
        stack.append(i)
    return par


def _flatten_tokens(toks, parent, out):
    for t in toks:
        i = len(out); out.append((t.get('id'), t.get('level'), parent))
        _flatten_tokens(t.get('children', []), i, out)


def _flatten_toc_html(div, errs):
    """div.toc > [span.toctitle] ul > li > (a, ul?)  ->  [(href, parent_index)]"""
    out = []

    def ul(node, parent):
        for li in node[3]:
            if li[0] == 't' and not H.untok(li[1]).strip(): continue
            if li[0] != 'e' or li[1] != 'li': errs.append('toc: unexpected node in ul: %r' % (li[:2],)); continue
            kids = [k for k in li[3] if not (k[0] == 't' and not H.untok(k[1]).strip())]
            if not kids or kids[0][0] != 'e' or kids[0][1] != 'a': errs.append('toc: li without link'); continue
            i = len(out); out.append((H.attrs_dict(kids[0]).get('href'), parent))
            for k in kids[1:]:
                if k[0] == 'e' and k[1] == 'ul': ul(k, i)
                else: errs.append('toc: unexpected node in li: %r' % (k[:2],))
    uls = [k for k in div[3] if k[0] == 'e' and k[1] == 'ul']
    if len(uls) != 1: errs.append('toc: div has %d ul' % len(uls))
    for u in uls: ul(u, -1)
    return out


def _has_class(nd, c):
    return c in H.attrs_dict(nd).get('class', '').split()


def _is_toc_div(nd, cfg):
    return nd[1] == 'div' and _has_class(nd, 'toc')


def _headings(forest, skip):
    for nd in forest:
        if nd[0] != 'e': continue
        if skip(nd): continue
        if len(nd[1]) == 2 and nd[1][0] in 'hH' and nd[1][1] in '123456':
            yield nd
        yield from _headings(nd[3], skip)


# ------------------------------------------------------------------------------------------------ toc check
def check_toc(src, cfg, explicit, md=None):
    """explicit: list of bool, one per generated heading (True = the source gives it an explicit id), or None (= none).
    -> (problems, info).  problems = list of (code, observed, required)."""
    probs = []; info = {}
    md = md or _mk(cfg)
    md.reset()
    with time_limit(10):
        out = md.convert(src)
    toc_html, toc_tokens = md.toc, md.toc_tokens
    fmt = cfg.get('fmt', 'xhtml')
    if not src.strip():
        # convert() returns '' for a blank source without running any processor: there is no heading and no toc
        info['blank'] = True
        if out != '' or toc_tokens: probs.append(('T3', 'blank source gave %r / %r' % (out, toc_tokens), 'nothing'))
        return probs, info
    forest, err = H.try_read(out, fmt)
    if forest is None:
        info['unreadable'] = err; return probs, info
    tforest, err = H.try_read(toc_html, fmt)
    if tforest is None:
        info['unreadable'] = 'toc: ' + err; return probs, info
    tcfg = cfg['toc']
    heads = list(_headings(forest, lambda nd: _is_toc_div(nd, tcfg)))
    info['headings'] = len(heads)
    if explicit is not None and len(explicit) != len(heads):
        info['count_mismatch'] = (len(explicit), len(heads)); return probs, info
    if explicit is None: explicit = [False] * len(heads)
    # all ids of the output
    allids = [H.attrs_dict(nd)['id'] for nd in H.walk(forest) if 'id' in H.attrs_dict(nd)]
    count = {}
    for x in allids: count[x] = count.get(x, 0) + 1
    hid = []
    for k, h in enumerate(heads):
        a = H.attrs_dict(h)
        if not a.get('id'):
            probs.append(('T1', 'heading %d <%s> has no id: %s' % (k, h[1], out), 'every heading has an id'))
            hid.append(None); continue
        hid.append(a['id'])
        if not explicit[k] and count[a['id']] != 1:
            probs.append(('T2', 'generated id %r of heading %d occurs %d times among the ids %r' % (a['id'], k, count[a['id']], allids),
                          'generated ids are unique'))
    # anchors / permalinks / every fragment link resolves
    for nd in H.walk(forest):
        a = H.attrs_dict(nd)
        if nd[1] == 'a' and a.get('href', '').startswith('#') and a['href'][1:] not in count:
            if _has_class(nd, 'footnote-backref') or _has_class(nd, 'footnote-ref'): continue   # footnote part's business
            probs.append(('T5', 'href %r has no target among ids %r' % (a['href'], allids), 'every generated link resolves'))
    for k, h in enumerate(heads):
        if hid[k] is None: continue
        links = [c for c in h[3] if c[0] == 'e' and c[1] == 'a']
        if tcfg.get('anchorlink'):
            al = [c for c in links if _has_class(c, 'toclink')]
            if len(al) != 1 or H.attrs_dict(al[0]).get('href') != '#' + hid[k]:
                probs.append(('T5', 'heading %d (id %r): anchorlink %r' % (k, hid[k], [H.attrs_dict(c) for c in al]), 'anchorlink -> own id'))
        if tcfg.get('permalink'):
            pl = [c for c in links if _has_class(c, 'headerlink')]
            if len(pl) != 1 or H.attrs_dict(pl[0]).get('href') != '#' + hid[k]:
                probs.append(('T5', 'heading %d (id %r): permalink %r' % (k, hid[k], [H.attrs_dict(c) for c in pl]), 'permalink -> own id'))
    # the toc
    depth = tcfg.get('toc_depth', 6)
    if isinstance(depth, str) and '-' in depth: top, bottom = [int(x) for x in depth.split('-')]
    else: top, bottom = 1, int(depth)
    lv = [int(h[1][1]) for h in heads]
    inr = [k for k in range(len(heads)) if top <= lv[k] <= bottom]
    par = outline([lv[k] for k in inr])
    want = [(hid[k], lv[k], par[j]) for j, k in enumerate(inr)]
    info['in_range'] = len(inr)
    got_tok = []; _flatten_tokens(toc_tokens, -1, got_tok)
    if got_tok != want:
        code = 'T3' if [(a, b) for a, b, _ in got_tok] != [(a, b) for a, b, _ in want] else 'T4'
        probs.append((code, 'toc_tokens (id, level, parent) = %r' % got_tok, 'outline of the headings = %r' % want))
    errs = []
    divs = [nd for nd in tforest if nd[0] == 'e']
    if len(divs) != 1 or not _is_toc_div(divs[0], tcfg):
        probs.append(('T3', 'md.toc is not one div.toc: %r' % toc_html, 'a toc div'))
    else:
        got_html = _flatten_toc_html(divs[0], errs)
        want_html = [('#' + i if i is not None else None, p) for i, _, p in want]
        if errs: probs.append(('T3', 'md.toc malformed: %s: %r' % (errs[0], toc_html), 'div > ul > li > a'))
        elif got_html != want_html:
            code = 'T3' if [a for a, _ in got_html] != [a for a, _ in want_html] else 'T4'
            probs.append((code, 'md.toc (href, parent) = %r' % got_html, 'outline of the headings = %r' % want_html))
    info['levels'] = lv
    return probs, info


# ------------------------------------------------------------------------------------------------ footnote check
def check_fn_live(src, cfg, other):
    """two live instances: both are constructed, the other one converts its document, then a FRESH instance of `cfg` converts `src`
    (without reset(): it has converted nothing) and its output is checked"""
    a = _mk(other['config']); b = _mk(cfg)
    try:
        with time_limit(10): a.convert(other['src'])
    except ConversionTimeout:
        raise
    except Exception:
        pass            # what the other document does to its own instance is not the point here
    return check_fn(src, cfg, b, reset=False)


def check_fn(src, cfg, md=None, reset=True):
    probs = []; info = {}
    md = md or _mk(cfg)
    if reset: md.reset()
    with time_limit(10):
        out = md.convert(src)
    forest, err = H.try_read(out, cfg.get('fmt', 'xhtml'))
    if forest is None:
        info['unreadable'] = err; return probs, info
    sups = []    # (id, target)
    for nd in H.walk(forest):
        if nd[1] == 'sup':
            ls = [c for c in nd[3] if c[0] == 'e' and c[1] == 'a' and _has_class(c, 'footnote-ref')]
            if ls: sups.append((H.attrs_dict(nd).get('id'), H.attrs_dict(ls[0]).get('href')))
    divs = [nd for nd in H.walk(forest) if nd[1] == 'div' and _has_class(nd, 'footnote')]
    lis = []
    for d in divs:
        for ol in d[3]:
            if ol[0] == 'e' and ol[1] == 'ol':
                lis += [c for c in ol[3] if c[0] == 'e' and c[1] == 'li']
                break
    liids = [H.attrs_dict(li).get('id') for li in lis]
    info['refs'] = len(sups); info['notes'] = len(lis)
    supids = [s for s, _ in sups]
    if len(set(supids)) != len(supids) or None in supids:
        probs.append(('F1', 'reference ids %r' % supids, 'pairwise distinct ids', None))
    if len(set(liids)) != len(liids):
        probs.append(('F1', 'footnote ids %r' % liids, 'pairwise distinct ids', None))
    for sid, href in sups:
        if href is None or not href.startswith('#') or href[1:] not in liids:
            probs.append(('F1', 'reference %r links to %r; footnotes present: %r' % (sid, href, liids), 'reference -> existing footnote', None))
    for li in lis:
        lid = H.attrs_dict(li).get('id')
        mine = [s for s, h in sups if h == '#%s' % lid]
        k = len(mine)
        bl = [H.attrs_dict(a).get('href') for a in H.walk(li[3]) if a[1] == 'a' and _has_class(a, 'footnote-backref')]
        blocks = [c for c in li[3] if c[0] == 'e']
        # a back-link inside a NESTED footnote div cannot happen (one div); all backrefs under li are this footnote's
        region = None
        if not blocks: region = 'F-C17-1'
        elif k == 0: region = 'F-C17-2'
        dangling = [h for h in bl if h is None or not h.startswith('#') or h[1:] not in mine]
        if dangling:
            probs.append(('F2', 'footnote %r: back-links %r, references to it carry ids %r' % (lid, bl, mine),
                          'every back-link targets a reference to this footnote', region))
        elif len(bl) != k or len(set(bl)) != len(bl):
            probs.append(('F3', 'footnote %r referenced %d times (ids %r) has back-links %r' % (lid, k, mine, bl),
                          '%d distinct back-links' % k, region))
    return probs, info


# ------------------------------------------------------------------------------------------------ generators
TITLES = ['Intro', 'intro', 'INTRO', 'a b', 'a  b', 'a-b', 'a - b', 'a_1', '_1', '_2', '1', '2', 'a 1', 'a', 'a', 'b', 'x', '', '!!!', '?', '...',
          'é', 'Éa', 'e', 'ß', 'ss', 'Привет', 'привет', '日本', 'ǅ', 'İ', 'ı', '٣', '*em*', '**a** b', '`a b`', '[a b](u)', 'a & b',
          'a &amp; b', 'AT&T', '"q"', 'a\\_1', 'a\\*b', 'a 1 2', 'fn 1', 'fnref 1', 'fn-1', 'x_1', 'x_01', 'x_1_1', 'toc', 'a b', 'a\tb',
          'A B', 'a b c', 'c', 'ab']
IDS = ['intro', 'a-b', 'a_1', '_1', '_2', 'a-b_1', 'x', 'X', 'x_1', 'x_01', 'é', 'a', 'a_2', 'b', '1', 'fn-1', 'fnref-1', 'e', 'ss', 'привет', 'a-1',
       'toc', 'c', 'ab', 'a-b-c', 'a\\-b', 'a\\_1', 'x\\_1', '\\_1', 'a\\-b\\_1']


def _attr(rng, i):
    return rng.choice(['{#%s}', '{: #%s }', '{: #%s .k }', '{: .k #%s}', '{: id=%s }']) % i


def gen_toc_doc(rng, levels=None, simple=False):
    """-> (src, cfg, explicit flags, meta)"""
    use_attr = rng.random() < 0.8
    use_fn = (not simple) and rng.random() < 0.15
    tc = {}
    if rng.random() < 0.5: tc['baselevel'] = rng.choice([1, 2, 3, 5, 6, '2'])
    if rng.random() < 0.5: tc['toc_depth'] = rng.choice([1, 2, 3, 4, 6, '1-6', '2-4', '2-2', '3-6', '1-1', '4-5'])
    if rng.random() < 0.3: tc['anchorlink'] = True
    if rng.random() < 0.4:
        tc['permalink'] = rng.choice([True, True, '#', 'link'])
        if rng.random() < 0.3: tc['permalink_leading'] = True
    if rng.random() < 0.4: tc['slugify'] = rng.choice(['default', 'unicode'])
    if rng.random() < 0.15: tc['separator'] = '_'
    cfg = {'toc': tc, 'attr_list': use_attr, 'footnotes': ({'SEPARATOR': rng.choice([':', '-', '-'])} if use_fn else None),
           'fmt': 'html' if rng.random() < 0.2 else 'xhtml'}
    if levels is None:
        levels = [rng.randint(1, 6) if rng.random() < 0.5 else rng.randint(1, 3) for _ in range(rng.randint(0, 9))]
    blocks = []; explicit = []
    pool = rng.sample(TITLES, rng.randint(2, 6))     # a small pool makes duplicates likely
    if not simple and rng.random() < 0.04:           # many duplicates of one title: suffixes reach two digits
        levels = [rng.randint(1, 3) for _ in range(rng.randint(11, 14))]; pool = pool[:1]
    ipool = rng.sample(IDS, rng.randint(1, 4))
    fnused = False
    if rng.random() < 0.25: blocks.append('[TOC]')
    for lv in levels:
        if simple: title = rng.choice(['t', 't', 'u', 'a b', ''])
        else: title = rng.choice(pool) if rng.random() < 0.8 else rng.choice(TITLES)
        if use_fn and rng.random() < 0.3 and title:
            title += '[^1]'; fnused = True
        ex = None
        if rng.random() < (0.1 if simple else 0.3):
            ex = rng.choice(ipool) if rng.random() < 0.8 else rng.choice(IDS)
        style = rng.random()
        setext = lv <= 2 and title.strip() and style < 0.25 and not title.startswith(('1', '2', '_', '?', '.', '!'))
        if setext:
            line = title + (' ' + _attr(rng, ex) if ex else '')
            text = line + '\n' + ('=' if lv == 1 else '-') * rng.randint(1, 6)
        else:
            closing = rng.choice(['', '', ' #', ' ' + '#' * lv, ' ####'])
            if ex and rng.random() < 0.5: text = '#' * lv + ' ' + title + closing + ' ' + _attr(rng, ex)
            elif ex: text = '#' * lv + ' ' + title + ' ' + _attr(rng, ex) + closing
            else: text = '#' * lv + (' ' + title if title else '') + (closing if title else '')
        explicit.append(bool(ex) and use_attr)
        r = rng.random()
        if not simple and r < 0.12: text = '\n'.join('> ' + l for l in text.split('\n'))
        elif not simple and r < 0.2 and not setext: text = rng.choice(['- ', '* ', '1. ']) + text
        elif not simple and r < 0.25 and not setext: text = '> - ' + text
        blocks.append(text)
        r = rng.random()
        if simple: pass
        elif r < 0.15: blocks.append('para ' + rng.choice(['text', '*em*', 'x']))
        elif r < 0.25 and use_attr: blocks.append('para\n{: #%s }' % rng.choice(ipool))
        elif r < 0.32 and use_attr: blocks.append('a *em*{: #%s } b' % rng.choice(ipool))
        elif r < 0.36 and use_attr: blocks.append('[l](u){#%s} and `c`{: #%s }' % (rng.choice(ipool), rng.choice(IDS)))
        elif r < 0.4 and use_fn: blocks.append('see[^1] and[^1]'); fnused = True
    if rng.random() < 0.1: blocks.append('[TOC]')
    if use_fn:
        if not fnused: blocks.append('ref[^1]')
        blocks.append('[^1]: the note')
    sep = '\n\n' if not simple or rng.random() < 0.7 else '\n'
    src = sep.join(blocks)
    if sep == '\n' and any('\n' in b for b in blocks): src = '\n\n'.join(blocks)
    return src, cfg, explicit


# incl. labels that contain the id prefixes (`fn`, `fnref`) and each separator character
FNIDS = ['1', '2', '3', '10', 'a', 'A', 'b', 'note', 'a b', 'é', 'x:y', 'x-y', 'fnref2', '1-a', 'a.b', '*', '&', '"', 'fn1', 'fn', 'boiling-fn', 'fn:fnref', 'fn_2']


def gen_fn_doc(rng):
    """-> (src, cfg, tags)  tags = set of known-finding regions the source was built to fall into"""
    tags = []
    cfg = {'footnotes': {}, 'fmt': 'html' if rng.random() < 0.2 else 'xhtml', 'attr_list': rng.random() < 0.2,
           'toc': ({} if rng.random() < 0.15 else None)}
    if rng.random() < 0.3: cfg['footnotes']['UNIQUE_IDS'] = True
    if rng.random() < 0.3: cfg['footnotes']['SEPARATOR'] = rng.choice(['-', '_', '.', '::'])
    ids = rng.sample(FNIDS, rng.randint(1, 4))
    undefined = rng.choice([x for x in FNIDS if x not in ids])
    nrefs = {}
    body_blocks = []
    defs = []
    redef = rng.choice(ids) if rng.random() < 0.1 else None      # this id is defined twice; the first body is discarded
    counting = [True]

    def ref(i):
        if counting[0]: nrefs[i] = nrefs.get(i, 0) + 1
        return '[^%s]' % i
    # definitions
    for i in ids:
        counting[0] = i != redef
        r = rng.random()
        first = rng.choice(['note', 'the *note* text', 'n `c`', 'see [l](u)'])
        if r < 0.01:
            first = ''; tags.append('F-C17-1')
        if rng.random() < 0.2 and first:
            j = rng.choice(ids)          # a reference inside a footnote body (possibly to itself)
            first += ' cf' + ref(j) + ' x'
        d = '[^%s]: %s' % (i, first) if first else '[^%s]:' % i
        r = rng.random()
        if first:
            if r < 0.15: d += '\n    continued'
            elif r < 0.25: d += '\nlazy'
            elif r < 0.4: d += '\n\n    second para' + (ref(rng.choice(ids)) + '.' if rng.random() < 0.3 else '')
            elif r < 0.5: d += '\n\n        code at the end'
            elif r < 0.6: d += '\n\n    - li\n    - li2'
            elif r < 0.65: d += '\n\n    > quote'
            elif r < 0.7: d += '\n\n    # heading'
        defs.append(d)
    counting[0] = True
    if redef is not None:
        defs.append('[^%s]: redefined' % redef)
    # body
    for _ in range(rng.randint(1, 5)):
        i = rng.choice(ids)
        r = rng.random()
        if r < 0.30: b = 'text' + ref(i) + ' more'
        elif r < 0.40: b = 'a' + ref(i) + ' b' + ref(i) + ' c' + ref(rng.choice(ids)) + '.'
        elif r < 0.47: b = '*em' + ref(i) + '* and **st' + ref(i) + '**'
        elif r < 0.54: b = '[link' + ref(i) + ' text](u) z'
        elif r < 0.60: b = '# head' + ref(i)
        elif r < 0.66: b = '> quote' + ref(i) + '\n> more' + ref(rng.choice(ids))
        elif r < 0.72: b = '- item' + ref(i) + '\n- item2' + ref(rng.choice(ids)) + '\n\n    para in item' + ref(i)
        elif r < 0.77: b = 'undefined[^%s] and `[^%s]` in code' % (undefined, i)
        elif r < 0.82: b = ref(i) + ' at the start and at the end' + ref(i)
        elif r < 0.86: b = ref(i) + ref(i) + ref(rng.choice(ids))
        elif r < 0.90: b = 'line one' + ref(i) + '  \nline two' + ref(i)
        elif r < 0.905: b = '![alt' + ref(i) + '](u) x'; tags.append('F-C17-3')
        elif r < 0.91: b = '[l](u "title' + ref(i) + '") x'; tags.append('F-C17-3')
        else: b = 'plain paragraph'
        body_blocks.append(b)
    if rng.random() < 0.15: body_blocks.insert(rng.randint(0, len(body_blocks)), '///Footnotes Go Here///')
    # make sure every footnote is referenced (F-C17-2) unless we deliberately leave one unused
    unused = [i for i in ids if not nrefs.get(i)]
    if unused and rng.random() < 0.97:
        body_blocks.append('and ' + ' '.join('w' + ref(i) for i in unused))
    elif unused:
        tags.append('F-C17-2')
    # definitions go at the end, or interleaved
    blocks = list(body_blocks)
    for d in defs:
        if rng.random() < 0.3: blocks.insert(rng.randint(0, len(blocks)), d)
        else: blocks.append(d)
    return '\n\n'.join(blocks), cfg, tags


# ------------------------------------------------------------------------------------------------ search
def _viol(kind, src, cfg, code, observed, required, finding=None, extra=None):
    v = {'input': src, 'config': dict(cfg, kind=kind), 'observed': '[%s] %s' % (code, observed), 'required': required, 'finding': finding}
    if extra: v['config'].update(extra)
    return v


_NESTED_FNDEF = re.compile(r'^(?:[ ]{4,}|\t+[ ]*|[ ]{0,3}\[\^[^\]\n]*\]:[^\n]*)\[\^[^\]\n]*\]:', re.M)   # a definition on a definition's line or indented into its body


def _fn_region_tag(src, region, tags):
    """narrow classification of a footnote problem into the known regions"""
    if region: return region
    if 'F-C17-3' in tags: return 'F-C17-3'
    if _NESTED_FNDEF.search(src): return 'F-C17-5'
    return None


def search(driver, rng, n):
    from markdown.extensions.toc import nest_toc_tokens
    viol = []; dist = {}; seen = set(); samples = []; cases = 0

    def bump(k, d=1): dist[k] = dist.get(k, 0) + d
    # (1) nest_toc_tokens, exhaustively over level sequences (function level)
    maxlen = 7 if n >= 50000 else 5
    for L in range(0, maxlen + 1):
        for lv in itertools.product(range(1, 7), repeat=L):
            toks = nest_toc_tokens([{'level': l, 'id': str(i)} for i, l in enumerate(lv)])
            got = []; _flatten_tokens(toks, -1, got)
            par = outline(lv)
            want = [(str(i), l, par[i]) for i, l in enumerate(lv)]
            cases += 1
            if got != want:
                viol.append(_viol('nest', list(lv), {}, 'T4', 'nest_toc_tokens -> %r' % got, 'outline %r' % want))
    bump('nest_exhaustive_maxlen', maxlen); bump('nest_exhaustive_cases', cases)
    mds = {}

    def inst(cfg):
        key = repr(sorted(cfg.items(), key=lambda kv: kv[0]))
        if key not in mds:
            if len(mds) > 300: mds.clear()
            mds[key] = _mk(cfg)
        return mds[key]

    def run_toc(src, cfg, explicit, label):
        nonlocal cases
        cases += 1
        try:
            probs, info = check_toc(src, cfg, explicit, inst(cfg))
        except RecursionError:
            bump('recursion_skip'); return
        except Exception as e:      # none occurs on the unchanged tree; without an output nothing of C17 holds
            if isinstance(e, ConversionTimeout): bump('timeouts')
            viol.append(_viol('toc', src, cfg, 'EXC', 'conversion raised %s: %s' % (type(e).__name__, e), 'an output with ids and links', None,
                              {'explicit': explicit})); mds.clear(); return
        if 'unreadable' in info: bump('toc_unreadable'); bump('toc_unreadable: ' + info['unreadable'][:40]); return
        if 'count_mismatch' in info: bump('toc_heading_count_mismatch'); return
        if 'blank' in info: bump('toc_blank_source'); return
        bump(label)
        bump('toc_headings', info.get('headings', 0)); bump('toc_in_range', info.get('in_range', 0))
        if explicit and any(explicit): bump('toc_with_explicit_id')
        if info.get('in_range', 0) >= 2 or (explicit and any(explicit)): seen.add((src, repr(cfg)))
        for code, obs, req in probs:
            viol.append(_viol('toc', src, cfg, code, obs, req, None, {'explicit': explicit}))
        if len(samples) < 2 and info.get('headings', 0) >= 3: samples.append({'kind': 'toc', 'src': src, 'config': cfg})
    # (2) level sequences at document level: exhaustive up to doclen, sampled beyond
    doclen = 6 if n >= 50000 else 5
    for L in range(0, doclen + 1):
        for lv in itertools.product(range(1, 7), repeat=L):
            if dist.get('timeouts', 0) >= 3: break
            src, cfg, explicit = gen_toc_doc(rng, list(lv), simple=True)
            run_toc(src, cfg, explicit, 'toc_docs_exhaustive_levels')
    for _ in range(n // 4):
        if dist.get('timeouts', 0) >= 3: break
        L = rng.randint(doclen + 1, 7)
        src, cfg, explicit = gen_toc_doc(rng, [rng.randint(1, 6) for _ in range(L)], simple=True)
        run_toc(src, cfg, explicit, 'toc_docs_sampled_levels')
    # (3) random toc documents
    for _ in range(n // 2):
        if dist.get('timeouts', 0) >= 3: break      # an endless loop in the code under test: three witnesses are enough
        src, cfg, explicit = gen_toc_doc(rng)
        run_toc(src, cfg, explicit, 'toc_docs_random')
    # (4) footnote documents
    for _ in range(n // 2):
        if dist.get('timeouts', 0) >= 6: break
        src, cfg, tags = gen_fn_doc(rng)
        cases += 1
        md = inst(cfg)
        prev = gen_fn_doc(rng)[0] if rng.random() < 0.15 else None
        twice = prev is not None
        # TWO LIVE INSTANCES (15 %): two fresh instances are constructed first, the OTHER one converts a document (footnote labels come
        # from a small pool, so the two documents share labels), then THIS fresh instance converts `src` (no reset() in between: a fresh
        # instance needs none).  The relations F1-F3 are required of every conversion, whatever other instances exist or did before.
        live = None
        if not twice and rng.random() < 0.15:
            osrc, ocfg, _ = gen_fn_doc(rng)
            if rng.random() < 0.5:      # the same source under the other output format (one instance per format): every label is shared
                osrc, ocfg = src, dict(cfg, fmt='html' if cfg.get('fmt', 'xhtml') == 'xhtml' else 'xhtml')
            live = {'src': osrc, 'config': ocfg}
        try:
            if twice:
                md.reset(); md.convert(prev)     # a previous document on the same instance
            if live is not None:
                probs, info = check_fn_live(src, cfg, live)
                bump('fn_two_live_instances')
            else:
                probs, info = check_fn(src, cfg, md)
        except RecursionError:
            bump('recursion_skip'); continue
        except Exception as e:
            if isinstance(e, ConversionTimeout): bump('timeouts')
            viol.append(_viol('fn', src, cfg, 'EXC', 'conversion raised %s: %s' % (type(e).__name__, e), 'an output with ids and links',
                              'F-C17-5' if (isinstance(e, RuntimeError) and 'mutated during iteration' in str(e) and _NESTED_FNDEF.search(src)) else None,
                              {'previous': prev, 'live_other': live})); mds.clear(); continue
        if 'unreadable' in info: bump('fn_unreadable'); bump('fn_unreadable: ' + info['unreadable'][:40]); continue
        bump('fn_docs'); bump('fn_refs', info['refs']); bump('fn_notes', info['notes'])
        if twice: bump('fn_second_doc_on_instance')
        for t in tags: bump('fn_built_in_region_' + t)
        if info['refs']: seen.add((src, repr(cfg)))
        for code, obs, req, region in probs:
            viol.append(_viol('fn', src, cfg, code, obs, req, _fn_region_tag(src, region, tags), {'previous': prev, 'live_other': live}))
        if len(samples) < 4 and info['refs'] >= 3: samples.append({'kind': 'fn', 'src': src, 'config': cfg})
        # with toc alongside: the toc relations must hold too (ids of sups/lis are "ids assigned elsewhere")
        if cfg.get('toc') is not None:
            try:
                probs, info = check_toc(src, cfg, None, md)
            except Exception:
                continue
            if 'unreadable' not in info:
                bump('fn_docs_toc_checked')
                for code, obs, req in probs:
                    viol.append(_viol('toc', src, cfg, code, obs, req))
    return {'cases': cases, 'distinct': len(seen), 'violations': viol, 'samples': samples, 'dist': dist}


def _fails(kind, src, cfg, explicit=None):
    prev = cfg.get('previous'); live = cfg.get('live_other')
    cfg = {k: v for k, v in cfg.items() if k not in ('kind', 'explicit', 'previous', 'live_other')}
    if kind == 'nest':
        from markdown.extensions.toc import nest_toc_tokens
        got = []; _flatten_tokens(nest_toc_tokens([{'level': l, 'id': str(i)} for i, l in enumerate(src)]), -1, got)
        par = outline(src)
        return got != [(str(i), l, par[i]) for i, l in enumerate(src)]
    try:
        if kind == 'toc':
            cfg.setdefault('toc', {})
            return bool(check_toc(src, cfg, explicit)[0])
        cfg.setdefault('footnotes', {})
        if live: return bool(check_fn_live(src, cfg, live)[0])
        md = _mk(cfg)
        if prev is not None: md.convert(prev)
        return bool(check_fn(src, cfg, md)[0])
    except RecursionError:
        return False
    except Exception:
        return True


def replay(witness):
    return _fails(witness.get('kind', 'fn'), witness['src'], dict(witness.get('config') or {}), witness.get('explicit'))


def replay_violation(v):
    c = v.get('config') or {}
    return _fails(c.get('kind', 'fn'), v['input'], dict(c), c.get('explicit'))
