"""Per-property composition of the check: Lean modules (obligations), correspondence modules (tie), oracle (search)."""
from framework import Spec

P = {}


def add(*a, **k):
    s = Spec(*a, **k); P[s.pid] = s


add('C13', ['MdVerif.Props.C13'], ['MdVerif.Audit.C13'], corr=['corr.registry'], oracle='oracle.c13',
    technique='Lean 4 refinement proof (registry model refines the registration-log spec for every op history) + op-sequence correspondence with util.Registry',
    partial='Priorities are modelled as integers (the harness scales binary-fraction floats); NaN priorities and str items are outside the domain.')

BUDGETS = {
    'C13': {'corr': 3000, 'search': 2000, 'search_broken': 30000},
}

# level texts for MANIFEST.level_claimed.text (own words per property)
LEVEL = {
    'C13': 'Machine-checked refinement theorem in Lean 4: for every operation history (any length, any names, priorities, ties, replacements, removals, reads incl. negative indices and slices) the model of util.Registry returns the observations prescribed by "stable descending sort of the registration log". The model is hand-written and tied to the code by an op-sequence correspondence run against the real class on every run; a broken proof or correspondence triggers a search for a failing history on the real class against the specification.',
}
NOT_CLAIMED = {}
