"""Per-property composition of the check: Lean modules (obligations), correspondence modules (tie), oracle (search).

A Lean / correspondence module listed here is used only if its file exists; a property is claimed (appears in
MANIFEST.json) only when at least one property module and its oracle exist.
"""
import os
from framework import Spec, LEAN, HARNESS

P = {}
PLANNED = {}


def _lean_exists(m): return os.path.exists(os.path.join(LEAN, m.replace('.', '/') + '.lean'))
def _py_exists(m): return os.path.exists(os.path.join(HARNESS, m.replace('.', '/') + '.py'))


def add(pid, props, corr, technique, partial, extra_trusted=(), regex_files=()):
    props = ['MdVerif.Props.' + p for p in props]
    have = [p for p in props if _lean_exists(p)]
    audits = [p.replace('.Props.', '.Audit.') for p in have]
    corr = [c for c in corr if _py_exists(c)]
    oracle = 'oracle.' + pid.lower()
    PLANNED[pid] = {'props': props, 'missing': [p for p in props if p not in have]}
    if have and _py_exists(oracle):
        P[pid] = Spec(pid, have, audits, corr=corr, oracle=oracle, partial=partial, technique=technique, extra_trusted=list(extra_trusted),
                      regex_files=REGEX_FILES.get(pid, ()))


PIPE = ['corr.pipeline', 'corr.block', 'corr.inline']
CORE_RE = ['markdown/inlinepatterns.py', 'markdown/blockprocessors.py', 'markdown/util.py', 'markdown/serializers.py',
           'markdown/postprocessors.py', 'markdown/htmlparser.py']
# source files whose regular-expression literals the models of each property were validated against (framework.regex_guard)
REGEX_FILES = {
    'C01': CORE_RE, 'C02': CORE_RE + ['markdown/extensions/'], 'C03': CORE_RE, 'C04': ['markdown/htmlparser.py', 'markdown/postprocessors.py', 'markdown/util.py'],
    'C05': CORE_RE, 'C06': CORE_RE, 'C07': CORE_RE, 'C08': CORE_RE, 'C10': CORE_RE, 'C14': ['markdown/serializers.py'],
    'C15': ['markdown/blockprocessors.py', 'markdown/inlinepatterns.py'],
    'C16': ['markdown/extensions/'], 'C17': ['markdown/extensions/toc.py', 'markdown/extensions/footnotes.py', 'markdown/extensions/attr_list.py'],
    'C18': ['markdown/util.py', 'markdown/postprocessors.py'],
}

add('C01', ['C01Spec', 'C01', 'C01b', 'C01c', 'C01d', 'C01e', 'C01f', 'C01g', 'C01h', 'C01i'], ['corr.doc', 'corr.nest', 'corr.nest2', 'corr.brdoc', 'corr.linkdoc'] + PIPE,
    'Lean 4: specification `spec : Doc → html` of the construct grammar + print; theorems on the pipeline model for sub-grammars; spec and model both tied to the implementation by correspondence',
    'PARTIAL: `convert (print d sp) = spec d` is proved for the sub-grammars named in Props/C01*.lean (whole block grammar nested to any depth with two-level emphasis, code spans, escapes; hard breaks, inline links and images in flat documents); for the rest (code blocks inside nesting, links inside nested blocks, reference spellings, autolinks) the Lean `spec` is compared with the implementation by correspondence and search only.')
add('C02', ['C02Block', 'C02Inline', 'C02X', 'C02Big', 'C02Fn'], PIPE + ['corr.extract', 'corr.code', 'corr.attrlist', 'corr.pipelinex'],
    'Lean 4 totality proofs: the block parsers (core and extended) never run out of fuel; for every `<`-free source the core pipeline with a provably sufficient inline fuel returns a string (never raises), the same for the extension pipeline with every subset of the eleven modelled extensions under decidable domain conditions; pipeline models tied by end-to-end correspondence; broad search for exceptions/timeouts',
    'PARTIAL: proved on the pipeline models for text without `<` (the model\'s own linear inline fuel is an explicit gap: C02_run_total_full); the stdlib HTML tokenizer, md_in_html/smarty/codehilite and CPython\'s recursion limit (F-C02-3) are outside the theorems — for them only the search speaks.')
add('C03', ['C03Code', 'C03', 'C03Fenced', 'C03X', 'C16Legacy'], ['corr.code', 'corr.pipelinex', 'corr.legacyattrs'] + PIPE,
    'Lean 4 proofs: code_escape composed with the serializer escapes exactly once and reads back to the body (for all strings); fenced-code recogniser/stash theorems; code text carried through the pipeline model',
    'PARTIAL: the raw-HTML tokenizer interplay is outside (F-C03-1/2/4/5/6/7 live there); "whatever surrounds the code" is proved for the placements named in Props/C03*.lean (top-level documents of paragraphs and code blocks, spans, fenced blocks, each with every extension set), code inside lists/quotes with extensions by correspondence and search.')
add('C04', ['C04', 'C04Text', 'C04Many'], ['corr.extract', 'corr.htmltok', 'corr.pipelineh'],
    'Lean 4 proofs over an event-level model of HTMLExtractor (state machine over tokenizer events) and of the raw-HTML restore: a balanced block is stashed verbatim exactly once and restored unwrapped; events recorded from the real parser are replayed in the model',
    'PARTIAL: a fragment of the stdlib tokenizer is modelled at text level (Model/HtmlTok.lean, tied by corr.htmltok/pipelineh) and carries the end-to-end theorems of Props/C04Text/C04Many; incomplete constructs (F-C04-1/2), inline raw HTML end to end, script/style and md_in_html are covered by correspondence/search only.')
add('C05', ['C05Block', 'C05', 'C05Amp', 'C05Full', 'C05X', 'C05XFull', 'C14'], PIPE + ['corr.serializer', 'corr.readers', 'corr.c05x'],
    'Lean 4 proofs: vocabulary/void invariant of every tree the block (and inline) model builds + serializer round-trip theorem (strict reader accepts the output and reads back the tree)',
    'Core pipeline: full for every `<`-free source (C05_full). Extension pipeline PARTIAL as stated in Props/C05X*.lean (admonition excluded: F-C14-2; attr_list may write non-XML attribute names: documented). Sources with raw HTML by search. "Entity reference" is read as the code reads it (digit-initial names allowed).')
add('C06', ['C06Block', 'C06Inline', 'C06', 'C06Links', 'C06X'], PIPE,
    'Lean 4 conservation invariants: letters(tree) ++ letters(pending blocks) is constant through every block processor; inline patterns conserve the flattened text',
    'End to end on the core pipeline model for the domain without `& <` (links in the forms of Props/C06Links); extension pipeline as far as Props/C06X.lean states; `isLetter` is an arbitrary class disjoint from markup characters.')
add('C07', ['C07Block', 'C07', 'C07X'], PIPE + ['corr.normalize', 'corr.pipelinex'],
    'Lean 4 proof on the pipeline model: a text in which every character of the GENERATED ESCAPED_CHARS table is backslash-escaped parses to a single paragraph (all recognisers proved inert) and renders as itself; table membership discharged by decide over the regenerated table',
    'End to end on the core pipeline (C07) and on the extension pipeline for every set of the eleven modelled extensions (C07X; exclusions = non-escapable triggers, kernel-checked); smarty and the other unmodelled extensions only by search.')
add('C08', ['C08Block', 'C08Inline', 'C08', 'C08Src'], PIPE,
    'Lean 4 locality proofs on the block model (processors never look past blocks[0]; the parent is read only through its last child) and stash-counter independence of the inline model',
    'PARTIAL: source-level theorem on the domain of Props/C08Src.lean (no `[ & < >`; stash bound as a computed hypothesis); outside it by correspondence and search.')
add('C09', ['C09', 'C09Doc', 'C09X', 'C09XCode'], ['corr.normalize', 'corr.pipeline', 'corr.pipelinex'],
    'Lean 4 proofs about the model of NormalizeWhitespace (line endings, tabs, STX/ETX, whitespace-only lines, leading/trailing blank lines), stated for the step list regenerated from the source; unit correspondence for tab lengths 0-8',
    'The normalisation theorems are full; the document-level theorems hold on the pipeline models (core and all extension sets: Props/C09Doc, C09X, C09XCode). F-C09-1 (whitespace-only first line) was repaired (fix: commit a0e7e3c); the first-line theorems are now unconditional.')
add('C10', ['C10', 'C10b', 'C10c', 'C10X', 'C10XPost', 'C10XTree', 'C10XToc', 'C10XTocAttr', 'C10XLate', 'C10XRaw', 'C10XC', 'C10XBlock', 'C10XCAll', 'C10XFn', 'C10XFnLeak', 'C10XAll', 'C10XFenceBlock', 'C10XCAllF', 'C10XAllAmp', 'C10XCAllAmp', 'C09', 'C16Legacy'], PIPE + ['corr.pipelinex', 'corr.legacyattrs'],
    'Lean 4 proofs: input cannot forge placeholders (normalisation strips STX/ETX), post-conditions of every restore step, placeholder invariants of the inline model on the pattern subset that cannot leak; the model leaks where the code leaks (kernel-checked)',
    'PARTIAL: proved on the leak-free domains of Props/C10*.lean for the core pipeline and for every subset of the eleven modelled extensions; the regions of F-C10-1..9 are excluded by explicit decidable hypotheses and kernel-checked; raw HTML and unmodelled extensions by search.')
add('C11', ['C11', 'C11Census', 'C11X'], ['corr.instancex'],
    'Lean 4 frame theorem on an abstract instance state machine (reset re-establishes the fresh state for every non-raising history) + census theorems decided by the kernel over tables regenerated from the source AST: every conversion-time write to instance state is re-initialised by reset() or on a justified allow-list',
    'The abstract model takes `convert` as a parameter; the concrete stateful model (Model/InstanceX.lean, tied by corr.instancex) instantiates it for the eleven modelled extensions + meta (Props/C11X); for the other extensions the census theorems + the oracle (fresh vs reset instances, attribute census) speak. F-C11-1 was repaired (fix: commit f86514b): reset() clears parser.state, the theorems hold for every history; the pre-repair reset is kept as a labelled counterexample.')
add('C12', ['C12', 'C11Census', 'C12X'], ['corr.threadsx', 'corr.instancex'],
    'Lean 4 schedule-independence theorem for confined threads over read-only/memo shared cells (every interleaving = sequential run) + kernel-decided census over the regenerated table of run-time writes to module/class-level state (must be on the memo allow-list)',
    'PARTIAL: CPython/GIL atomicity, `re` cache, importlib locks, xml.etree internals are trusted; a theorem about this model cannot exhibit a data race inside the interpreter. Threaded runs are the search.')
add('C13', ['C13'], ['corr.registry'],
    'Lean 4 refinement proof (registry model refines the registration-log spec for every op history) + op-sequence correspondence with util.Registry',
    'Priorities are modelled as integers (the harness scales binary-fraction floats); NaN priorities and str items are outside the domain.')
add('C14', ['C14', 'C14Doc', 'C14DocDomain', 'C14X'], ['corr.serializer', 'corr.pipeline', 'corr.readers', 'corr.pipelinex'],
    'Lean 4 proofs for all strings and trees: escape/read-back, idempotence, entity pass-through, serialise-then-strict-read round trip in both formats, html/xhtml read back equal',
    'Tree level full; document level PARTIAL (the format leaks into stashed HTML through md.serializer inside HtmlInlineProcessor.unescape, toc, md_in_html): checked by correspondence and search. F-C14-1 (void element with text) is a kernel-checked counterexample.')
add('C15', ['C15', 'C15Inline', 'C15Forms', 'C15Text'], PIPE,
    'Lean 4 proofs on the block model: the reference-definition recogniser accepts every title spelling, a definition adds exactly one map entry and no node, position independence, label normalisation',
    'End to end for the reference forms and document shapes of Props/C15Forms/C15Text (marked-up link text, n definitions x m uses, definitions anywhere among blocks); uses inside nested blocks by correspondence.')
add('C16', ['C16Tables', 'C16Triggers', 'C16AttrList', 'C16Fenced', 'C16BlockExt', 'C16Order', 'C16Pipeline', 'C16Render',
            'C16RenderFence', 'C16RenderWiki', 'C16RenderX', 'C16RenderG', 'C16Meta', 'C16Legacy'],
    ['corr.tables', 'corr.triggers', 'corr.attrlist', 'corr.code', 'corr.blockext', 'corr.dispatch', 'corr.pipelinex', 'corr.meta', 'corr.legacyattrs'],
    'Lean 4 proofs: table cell splitting/row width/alignment theorems, attribute-list print/parse round trip, entry recognisers of every extension need their trigger + dispatcher inertness theorem (non-interference), fenced-code inertness',
    'PARTIAL: md_in_html, smarty, codehilite, legacy_em are not modelled (search only); legacy_attrs is modelled (Model/Ext/LegacyAttrs.lean, PipelineL; Props/C16Legacy: exact tree-level trigger, recogniser-level rendering, atomic/code texts kept on any tree); for the eleven modelled extensions + meta: non-interference on the end-to-end model and documented rendering end to end for the document shapes of Props/C16Render*.lean, other compositions by correspondence/search.')
add('C17', ['C17', 'C17Doc', 'C17Src', 'C16Order'], ['corr.toc', 'corr.pipelinex'],
    'Lean 4 proofs: unique() fresh + terminating (pigeonhole), assigned ids pairwise distinct, nest_toc_tokens flatten/outline theorems for all level sequences, footnote id bookkeeping (refs resolve, k refs → k distinct back-links)',
    'slugify and inline rendering of titles are parameters (theorems hold for every slugify); F-C17-1/2 are kernel-checked counterexamples.')
add('C18', ['C18', 'C18Stash', 'C18X', 'C16Legacy'], ['corr.dispatch', 'corr.inline', 'corr.registry', 'corr.legacyattrs'],
    'Lean 4 proofs: dispatcher order = registry view (C13), run()->False falls through, order facts decided over the regenerated registration table; AtomicString skip and htmlStash restore theorems on the tree/post-processor models',
    'PARTIAL: a third-party processor can do anything; the contract is proved for the core pipeline\'s treatment of what a probe inserts. F-C18-1..4 (bundled tree processors re-reading atomic text) are known findings.')
add('C19', ['C19'], ['corr.config'],
    'Lean 4: name resolution decided by the kernel over the regenerated entry-point/makeExtension tables; parseBoolValue and setConfig laws',
    'PARTIAL: importlib/entry-point discovery trusted; that equal class + equal config give equal conversions is determinism (C11).')
add('C20', ['C20'], ['corr.codec'],
    'Lean 4 proofs: codec round trips (ASCII, Latin-1, UTF-8), xmlcharrefreplace totality, BOM stripping, CLI option print/parse round trip',
    'PARTIAL: codecs, files and standard streams are trusted; other encodings by correspondence/search only. F-C20-1 (stdin ignores encoding).')

BUDGETS = {
    'C13': {'corr': 3000, 'search': 2000, 'search_broken': 30000},
    'C09': {'corr': 1500, 'search': 1500},
    'C14': {'corr': 1500, 'search': 1500},
    'C17': {'corr': 1500, 'search': 1000},
    'C16': {'corr': 800, 'search': 1200},
    'C02': {'corr': 2500, 'search': 3000},
}

# level texts for MANIFEST.level_claimed.text (own words per property)
LEVEL = {
    'C13': 'Machine-checked refinement theorem in Lean 4: for every operation history (any length, any names, priorities, ties, replacements, removals, reads incl. negative indices and slices) the model of util.Registry returns the observations prescribed by "stable descending sort of the registration log". The model is hand-written and tied to the code by an op-sequence correspondence run against the real class on every run; a broken proof or correspondence triggers a search for a failing history on the real class against the specification.',
}
NOT_CLAIMED = {}
