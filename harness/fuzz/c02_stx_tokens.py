'''C02: hook UnescapeTreeprocessor on the real code and check the STX-token invariant of Props/C02Big.lean
(C02_stx_token_invariant) on grammar-fuzzed nested link/escape/quote documents.  usage: c02_stx_tokens.py <seed> <n>'''
import sys, random, re, os
sys.path.insert(0, os.environ.get('VERIF_REPO', '/repo'))
import markdown
from markdown.treeprocessors import UnescapeTreeprocessor
STX, ETX = '\x02', '\x03'
viol = []
cur = [None]
stats = {}
def check(s, attr, where):
    for m in re.finditer(STX, s):
        i = m.end()
        if i < len(s) and s[i] in '0123456789':
            mm = re.compile(r'[0-9]+').match(s, i)
            j = mm.end()
            if j < len(s) and s[j] == ETX:
                v = int(mm.group(0))
                if v >= 0x110000:
                    viol.append(('BIG', where, s, cur[0]))
                elif not (33 <= v < 127):
                    viol.append(('ODDVAL', where, s, cur[0]))
                else:
                    stats['tok-' + where] = stats.get('tok-' + where, 0) + 1
            else:
                if attr and j == len(s):
                    stats['trunc-attr'] = stats.get('trunc-attr', 0) + 1
                else:
                    viol.append(('UNTERMINATED', where, s, cur[0]))
        elif i < len(s) and s[i] in 'kw':
            stats['kw-' + where] = stats.get('kw-' + where, 0) + 1
        elif attr and i == len(s):
            stats['stxend-attr'] = stats.get('stxend-attr', 0) + 1
        else:
            viol.append(('STXOTHER', where, s, cur[0]))
orig = UnescapeTreeprocessor.run
def run(self, root):
    for el in root.iter():
        if el.text and el.tag != 'code': check(el.text, False, 'text')
        if el.tail: check(el.tail, False, 'tail')
        for k, v in el.items(): check(v, True, 'attr')
    return orig(self, root)
UnescapeTreeprocessor.run = run
md = markdown.Markdown()
seed = int(sys.argv[1]); N = int(sys.argv[2])
rnd = random.Random(seed)
ESC = '\\`*_{}[]()>#+-.!'
def txt(d):
    return ''.join(rnd.choice(['a', 'b', '1', '7', ' ', '\\' + rnd.choice(ESC + '"\'&'), '&amp;', '&', ';', '\\', 'k', 'w', ':', '\n']) for _ in range(rnd.randint(0, 3)))
def dest(d):
    parts = []
    for _ in range(rnd.randint(0, 5)):
        parts.append(rnd.choice(['"', "'", '(', ')', ' ', 'u', '\\(', '\\)', '\\"', "\\'", '\\*', '1']) if rnd.random() < 0.8 else inline(d + 1))
    return ''.join(parts)
def inline(d):
    if d > 4: return txt(d)
    r = rnd.random()
    if r < 0.2: return txt(d)
    if r < 0.3: return '*' + inline(d + 1) + '*'
    if r < 0.4: return '**' + inline(d + 1) + '**'
    if r < 0.45: return '_' + inline(d + 1) + '_'
    if r < 0.65: return '[' + inline(d + 1) + '](' + dest(d + 1) + rnd.choice([')', '', ')', '('])
    if r < 0.72: return '![' + inline(d + 1) + '](' + dest(d + 1) + rnd.choice([')', '', ')'])
    if r < 0.78: return '[' + inline(d + 1) + '][' + rnd.choice(['r', '', 'x']) + ']'
    if r < 0.82: return '`' + txt(d) + '`'
    if r < 0.86: return '[' + inline(d + 1) + ']'
    return inline(d + 1) + inline(d + 1)
def mutate(s):
    s = list(s)
    for _ in range(rnd.randint(0, 2)):
        if not s: break
        i = rnd.randrange(len(s))
        r = rnd.random()
        if r < 0.4: del s[i]
        elif r < 0.8: s.insert(i, rnd.choice('[]()"\'\\*_`! '))
        else: s[i] = rnd.choice('[]()"\'\\*_`! ')
    return ''.join(s)
errs = 0
for n in range(N):
    src = mutate(inline(0))
    if rnd.random() < 0.3: src += '\n\n[r]: /u "t"\n'
    cur[0] = src
    md.reset()
    try:
        md.convert(src)
    except Exception as e:
        errs += 1
        print('EXC', repr(src), repr(e)); sys.stdout.flush()
kinds = {}
for v in viol:
    kinds.setdefault(v[0] + '/' + v[1], []).append(v)
for k, vs in kinds.items():
    vs.sort(key=lambda v: len(v[3]))
    print(k, len(vs))
    for v in vs[:8]:
        print('   ', repr(v[3]), '->', repr(v[2]))
print('stats', stats)
print('errs', errs)
